"""Fail-closed translator: the functions the C01 / C02 / C06 / C10 models were written from -> coq/Gen/GenSource.v

derivative / gradient / hessian (Model/Deriv.v), call (Model/Eval.v), simple_dispatch (dispatch1 / dispatch2 of Model/Poly.v:
add, subtract, negative, positive and the other column-wise wrappers go through it), multiply and power (Model/Poly.v), and prod,
matmul, det, inner, outer, diff, ediff1d (Model/Reduce.v), and the four aligners of align.py (Model/Poly.v; C04, and C20 because
every binary operation merges the operands' exponent rows there).  Same method as
query_tr.py: every statement, after canonical renaming of locals and with logging dropped, is compared with the statement the
model was written from; one fact per statement; a changed signature or statement count raises.  The table below is the
normalised text of the tree the models were validated against (correspondence checks of C01, C02, C06, C10).
"""
from __future__ import annotations

import os

from .query_tr import normalised, TranslatorError

GEN_NAME = "GenSource.v"

EXPECTED = [('C06',
  'poly_function/derivative.py',
  'derivative',
  ['poly', '*diffvars'],
  ['poly = v0 = numpoly.aspolynomial(poly)',
   'v1 = poly.names',
   'for v2 in diffvars:\n'
   '    if isinstance(v2, (int, numpy.integer)):\n'
   '        v2 = v1[v2]\n'
   '    if isinstance(v2, str):\n'
   '        v3 = poly.names.index(v2)\n'
   '    else:\n'
   '        v2 = numpoly.aspolynomial(v2)\n'
   '        v4, v5 = numpoly.remove_redundant_coefficients(v2.exponents, v2.coefficients)\n'
   '        v4, v6 = numpoly.remove_redundant_names(v4, v2.names)\n'
   "        assert v6 is not None and len(v6) == 1, 'one at the time'\n"
   "        assert numpy.all(v4 == 1), 'derivative variable assumes singletons'\n"
   '        v3 = poly.names.index(v6[0])\n'
   '    v4 = poly.exponents\n'
   '    v7 = [(v8[v3] * v9.T).T for v8, v9 in zip(v4, poly.coefficients)]\n'
   '    v4[:, v3] -= 1\n'
   '    assert not numpy.any(v4 < 0)\n'
   '    poly = numpoly.ndpoly.from_attributes(exponents=v4, coefficients=v7, names=v0.names, retain_coefficients=False)\n'
   '    poly, v0 = numpoly.align_polynomials(poly, v0)',
   'return poly']),
 ('C06',
  'poly_function/derivative.py',
  'gradient',
  ['poly'],
  ['poly = numpoly.aspolynomial(poly)', 'v0 = [derivative(poly, v1)[numpy.newaxis] for v1 in poly.names]', 'return numpoly.concatenate(v0, axis=0)']),
 ('C06',
  'poly_function/derivative.py',
  'hessian',
  ['poly'],
  ['poly = numpoly.aspolynomial(poly)',
   'v0, v1 = numpoly.align_indeterminants(gradient(poly), poly.indeterminants)',
   'v2 = [derivative(v0, v3)[numpy.newaxis] for v3 in poly.names]',
   'return numpoly.concatenate(v2, axis=0)']),
 ('C02',
  'poly_function/call.py',
  'call',
  ['poly', 'args', 'kwargs'],
  ['poly = numpoly.aspolynomial(poly)',
   'kwargs = kwargs if kwargs else {}',
   'v0 = dict(zip(poly.names, poly.indeterminants))',
   'if kwargs:\n    v0.update(kwargs)',
   'for v1, v2 in zip(args, poly.names):\n'
   '    if v2 in kwargs:\n'
   '        raise TypeError(f"multiple values for argument \'{v2}\'")\n'
   '    if v1 is not None:\n'
   '        v0[v2] = v1',
   'v3 = [v4 for v4 in v0 if v4 not in poly.names]',
   'if v3:\n    raise TypeError(f"unexpected keyword argument \'{v3[0]}\'")',
   'v5 = numpy.ones((), dtype=int)',
   'for v6 in v0.values():\n    v5 = v5 * numpy.ones(numpoly.polynomial(v6).shape, dtype=int)',
   'v7 = poly.shape + v5.shape',
   'v8 = numpy.zeros((), dtype=int)',
   'for v9, v10 in zip(poly.exponents, poly.coefficients):\n'
   '    v11 = v5\n'
   '    for v12, v2 in zip(v9, poly.names):\n'
   '        v11 = v11 * v0[v2] ** int(v12)\n'
   '    if isinstance(v11, numpoly.ndpoly):\n'
   '        v13 = numpoly.outer(v10, v11)\n'
   '    else:\n'
   '        v13 = numpy.outer(v10, v11)\n'
   '    v8 = v8 + v13.reshape(v7)',
   'if isinstance(v8, numpoly.ndpoly):\n'
   '    if v8.isconstant():\n'
   '        v8 = v8.tonumpy()\n'
   '    else:\n'
   '        v8, v14 = numpoly.align_indeterminants(v8, poly.indeterminants)',
   'return v8']),
 ('C01',
  'dispatch.py',
  'simple_dispatch',
  ['numpy_func', 'inputs', 'out', '**kwargs'],
  ['inputs = numpoly.align_polynomials(*inputs)',
   'v0 = (inputs[0] if out is None else numpoly.aspolynomial(out[0])).keys',
   'v1 = numpy_func(*[v2.values[v0[0]] for v2 in inputs], **kwargs)',
   'if out is None:\n'
   '    v3 = numpoly.ndpoly(exponents=inputs[0].exponents, shape=v1.shape, names=inputs[0].indeterminants, dtype=v1.dtype)\n'
   'else:\n'
   '    assert len(out) == 1\n'
   '    v3 = out[0]',
   'v3.values[v0[0]] = v1',
   'for v4 in v0[1:]:\n    v3.values[v4] = numpy_func(*[v2.values[v4] for v2 in inputs], **kwargs)',
   'if out is None:\n    v3 = numpoly.clean_attributes(v3)',
   'return numpoly.aspolynomial(v3)']),
 ('C01',
  'array_function/multiply.py',
  'multiply',
  ['x1', 'x2', 'out', 'where', '**kwargs'],
  ['x1, x2 = numpoly.align_indeterminants(x1, x2)',
   'v0 = numpy.result_type(x1, x2)',
   'v1 = numpy.broadcast_shapes(x1.shape, x2.shape)',
   'where = numpy.asarray(where)',
   'v2 = numpy.unique(numpy.tile(x1.exponents, (len(x2.exponents), 1)) + numpy.repeat(x2.exponents, len(x1.exponents), 0), axis=0)',
   'v3 = numpoly.ndpoly(exponents=v2, shape=v1, names=x1.indeterminants, dtype=v0) if out is None else out',
   'v4 = int(x1.exponents.max(initial=0)) + int(x2.exponents.max(initial=0)) + x1.KEY_OFFSET',
   'if v4 < 128 and v3.dtype == v0 and (v0 in numpoly.KERNEL_DTYPES):\n'
   '    numpoly.cmultiply(x1.exponents, x2.exponents, x1.coefficients, x2.coefficients, x1.KEY_OFFSET, v3.values.ravel())\n'
   'else:\n'
   '    v5 = set()\n'
   '    for v6, v7 in zip(x1.exponents, x1.coefficients):\n'
   '        for v8, v9 in zip(x2.exponents, x2.coefficients):\n'
   '            v10 = (v6 + v8 + x1.KEY_OFFSET).ravel()\n'
   "            v10 = v10.view(f'U{len(v6)}').item()\n"
   '            if v10 in v5:\n'
   '                v3.values[v10] += v7 * v9\n'
   '            else:\n'
   '                v3.values[v10] = v7 * v9\n'
   '            v5.add(v10)',
   'if out is None:\n    v3 = numpoly.clean_attributes(v3)',
   'return v3']),
 ('C01',
  'array_function/power.py',
  'power',
  ['x1', 'x2', '**kwargs'],
  ['x1 = numpoly.aspolynomial(x1)',
   'x2 = numpoly.aspolynomial(x2).tonumpy()',
   'if numpy.any(x2 < 0) or numpy.any(x2 != numpy.floor(x2)):\n'
   '    if not x1.isconstant():\n'
   "        raise numpoly.FeatureNotSupported('only non-negative integer powers of polynomials are supported.')\n"
   '    return numpoly.polynomial(numpy.power(x1.tonumpy(), x2))',
   'x2 = x2.astype(int)',
   'if not x2.shape:\n'
   '    v0 = numpoly.ndpoly.from_attributes([(0,)], [numpy.ones(x1.shape, dtype=x1._dtype)], x1.names[:1])\n'
   '    for v1 in range(x2.item()):\n'
   '        v0 = numpoly.multiply(v0, x1, **kwargs)\n'
   'else:\n'
   '    v2 = numpy.broadcast_shapes(x1.shape, x2.shape)\n'
   '    x2 = numpy.broadcast_to(x2, v2)\n'
   '    v0 = numpoly.polynomial(numpy.zeros(v2, dtype=x1.dtype))\n'
   '    for v3 in numpy.unique(x2):\n'
   '        v4 = (x2 == v3).astype(x1.dtype)\n'
   '        v0 = numpoly.add(v0, numpoly.multiply(power(x1, v3, **kwargs), v4, **kwargs))',
   'return numpoly.polynomial(v0)']),
 ('C10',
  'array_function/prod.py',
  'prod',
  ['a', 'axis', 'dtype', 'out', 'keepdims', '**kwargs'],
  ['a = numpoly.aspolynomial(a)',
   'assert out is None',
   'if keepdims:\n'
   '    if axis is None:\n'
   '        out = _prod(numpoly.reshape(a, -1), axis=0)\n'
   '        out = numpoly.reshape(out, (1,) * len(a.shape))\n'
   '        return out\n'
   '    elif isinstance(axis, (int, numpy.integer)):\n'
   '        axis = [axis]',
   'if axis is None:\n'
   '    out = _prod(numpoly.reshape(a, -1), axis=0)\n'
   'elif isinstance(axis, (int, numpy.integer)):\n'
   '    out = _prod(a, axis=axis)\n'
   'else:\n'
   '    v0 = [v1 + a.ndim if v1 < 0 else v1 for v1 in axis]\n'
   '    for v1 in v0:\n'
   '        a = _prod(a, axis=v1)\n'
   '        a = a[(slice(None),) * v1 + (numpy.newaxis,)]\n'
   '    out = a\n'
   '    if not keepdims:\n'
   '        v2 = [v3 for v1, v3 in enumerate(a.shape) if v1 not in v0]\n'
   '        out = numpoly.reshape(a, v2)',
   'return out']),
 ('C10',
  'array_function/prod.py',
  '_prod',
  ['a', 'axis'],
  ['axis = axis + a.ndim if axis < 0 else axis',
   'assert a.ndim > axis, (a, axis)',
   'v0 = (slice(None),) * axis',
   'v1 = a[v0 + (0,)]',
   'for v2 in range(1, a.shape[axis]):\n    v1 = numpoly.multiply(v1, a[v0 + (v2,)])',
   'assert len(v1.shape) + 1 == len(a.shape)',
   'return v1']),
 ('C10',
  'array_function/matmul.py',
  'matmul',
  ['x1', 'x2', 'out', '**kwargs'],
  ['x1 = numpoly.aspolynomial(x1)',
   'x2 = numpoly.aspolynomial(x2)',
   'if not x1.shape:\n    raise ValueError(ERROR_MESSAGE % 0)',
   'if not x2.shape:\n    raise ValueError(ERROR_MESSAGE % 1)',
   'x1 = numpoly.reshape(x1, x1.shape + (1,))',
   'x2 = numpoly.reshape(x2, x2.shape[:-2] + (1,) + x2.shape[-2:])',
   'x1, x2 = numpoly.broadcast_arrays(x1, x2)',
   'v0 = numpoly.multiply(x1, x2, out=out, **kwargs)',
   'return numpoly.sum(v0, axis=-2)']),
 ('C10',
  'array_function/det.py',
  'det',
  ['a'],
  ['a = numpoly.aspolynomial(a)',
   'assert a.ndim >= 2, a',
   'assert a.shape[-2] == a.shape[-1], a.shape',
   'v0 = a.shape[-1]',
   'v1 = (slice(None),) * (a.ndim - 2)',
   'if v0 == 1:\n    return a[v1 + (0, 0)]',
   'if v0 == 2:\n    return a[v1 + (0, 0)] * a[v1 + (1, 1)] - a[v1 + (1, 0)] * a[v1 + (0, 1)]',
   'v2 = numpoly.zeros_like(a, shape=a.shape[:-2])',
   'for v3 in range(v0):\n'
   '    v4 = [v5 for v5 in range(v0) if v5 != v3]\n'
   '    v6 = v1 + (0, v3)\n'
   '    v7 = v1 + (slice(1, None), v4)\n'
   '    v8 = a[v6] * det(a[v7])\n'
   '    v2 = v2 - v8 if v3 % 2 else v2 + v8',
   'return v2']),
 ('C10',
  'array_function/inner.py',
  'inner',
  ['a', 'b'],
  ['a, b = numpoly.align_exponents(a, b)', 'return numpoly.sum(numpoly.multiply(a, b), axis=-1)']),
 ('C10',
  'array_function/outer.py',
  'outer',
  ['a', 'b', 'out'],
  ['a, b = numpoly.align_exponents(a, b)',
   'a = a.ravel()[:, numpy.newaxis]',
   'b = b.ravel()[numpy.newaxis, :]',
   'return numpoly.multiply(a, b, out=out)']),
 ('C10',
  'array_function/diff.py',
  'diff',
  ['a', 'n', 'axis', 'prepend', 'append'],
  ['if append is not None:\n'
   '    if prepend is not None:\n'
   '        a, append, prepend = numpoly.align_exponents(a, append, prepend)\n'
   '    else:\n'
   '        a, append = numpoly.align_exponents(a, append)\n'
   'elif prepend is not None:\n'
   '    a, prepend = numpoly.align_exponents(a, prepend)\n'
   'else:\n'
   '    a = numpoly.aspolynomial(a)',
   'v0 = None',
   'for v1 in a.keys:\n'
   '    v2 = {}\n'
   '    if append is not None:\n'
   "        v2['append'] = append.values[v1]\n"
   '    if prepend is not None:\n'
   "        v2['prepend'] = prepend.values[v1]\n"
   '    v3 = numpy.diff(a.values[v1], n=n, axis=axis, **v2)\n'
   '    if v0 is None:\n'
   '        v0 = numpoly.ndpoly(exponents=a.exponents, shape=v3.shape, names=a.indeterminants, dtype=v3.dtype)\n'
   '    v0.values[v1] = v3',
   'assert v0 is not None',
   'return numpoly.clean_attributes(v0)']),
 ('C10',
  'array_function/ediff1d.py',
  'ediff1d',
  ['ary', 'to_end', 'to_begin'],
  ['ary = numpoly.aspolynomial(ary).ravel()',
   'v0 = [ary[1:] - ary[:-1]]',
   'if to_end is not None:\n    v0.append(numpoly.aspolynomial(to_end).ravel())',
   'if to_begin is not None:\n    v0.insert(0, numpoly.aspolynomial(to_begin).ravel())',
   'v1 = tuple((numpoly.aspolynomial(ary) for ary in v0))',
   'if len(v1) > 1:\n    v1 = numpoly.align_exponents(*v1)',
   'v2 = numpoly.ndpoly(exponents=v1[0].exponents, shape=(sum([ary.size for ary in v1]),), names=v1[0].names, dtype=ary[0].dtype)',
   'v3 = 0',
   'for ary in v1:\n    for v4 in ary.keys:\n        v2.values[v4][v3:v3 + ary.size] = ary.values[v4]\n    v3 += ary.size',
   'return v2']),
 ('C04,C20', 'align.py', 'align_polynomials', ['*polys'], ['polys = align_shape(*polys)', 'polys = align_exponents(*polys)', 'return polys']),
 ('C04,C20',
  'align.py',
  'align_shape',
  ['*polys'],
  ['v0 = [numpoly.aspolynomial(v1) for v1 in polys]',
   'v2 = numpy.ones(numpy.broadcast_shapes(*[v1.shape for v1 in v0]), dtype=bool)',
   'for v3, v1 in enumerate(v0):\n'
   '    if v1.shape != v2.shape:\n'
   '        v0[v3] = v1.from_attributes(exponents=v1.exponents, coefficients=tuple((v4 * v2 for v4 in v1.coefficients)), names=v1.indeterminants)',
   'return tuple(v0)']),
 ('C04,C20',
  'align.py',
  'align_indeterminants',
  ['*polys'],
  ['v0 = [numpoly.aspolynomial(v1) for v1 in polys]',
   'v2 = get_options()',
   "v3 = len(v2['default_varname'])",
   "v4 = tuple(sorted({str(v5) for v1 in v0 for v5 in v1.names}, key=lambda x: int(x[v3:] or '0')))",
   'if not v4:\n    return tuple(v0)',
   'for v6, v1 in enumerate(v0):\n'
   '    if v1.names == v4:\n'
   '        continue\n'
   '    v7 = numpy.array([v4.index(v5) for v5 in v1.names if v5 in v4])\n'
   '    v8 = numpy.zeros((len(v1.keys), len(v4)), dtype=int)\n'
   '    if v7.size:\n'
   '        v8[:, v7] = v1.exponents\n'
   '    v0[v6] = numpoly.ndpoly.from_attributes(exponents=v8, coefficients=v1.coefficients, names=v4, retain_coefficients=True, retain_names=True)',
   'return tuple(v0)']),
 ('C04,C20',
  'align.py',
  'align_exponents',
  ['*polys'],
  ['v0 = [numpoly.aspolynomial(v1) for v1 in polys]',
   'if not all((v0[0].names == v1.names for v1 in v0)):\n    v0 = list(align_indeterminants(*v0))',
   'v2 = numpy.vstack([v1.exponents for v1 in v0])',
   'v2 = numpy.unique(v2, axis=0).tolist()',
   'for v3, v1 in enumerate(v0):\n'
   '    v4 = {tuple(v5): v6 for v5, v6 in zip(v1.exponents, v1.coefficients)}\n'
   '    v7 = numpy.zeros(v1.shape, dtype=v1.dtype)\n'
   '    v8 = [v4.get(tuple(v5), v7) for v5 in v2]\n'
   '    v0[v3] = v1.from_attributes(exponents=v2, coefficients=v8, names=v1.names, retain_coefficients=True, retain_names=True)',
   'return tuple(v0)'])]


def translate(repo):
    out = []
    for prop, path, fn, params, stmts in EXPECTED:
        got_params, got = normalised(os.path.join(repo, "numpoly", path), fn)
        if got_params != params:
            raise TranslatorError(f"{fn}: signature {got_params}, modelled {params}")
        if len(got) != len(stmts):
            raise TranslatorError(f"{fn}: {len(got)} statements, the model was written from {len(stmts)}")
        out.append((prop, fn, [g == w for g, w in zip(got, stmts)]))
    return out


def generate(repo, coq_dir):
    facts = translate(repo)
    b = lambda x: "true" if x else "false"  # noqa: E731
    lines = ["(* GENERATED by harness/translators/source_tr.py - do not edit.  One fact per statement of each function:",
             "   is it the statement the Coq model was written from? *)", "From mathcomp Require Import all_ssreflect."]
    for prop, fn, fs in facts:
        lines.append(f"Definition gen_src_{fn} : seq bool := [:: " + "; ".join(b(x) for x in fs) + f"].   (* {prop} *)")
    text = "\n".join(lines) + "\n"
    path = os.path.join(coq_dir, "Gen", GEN_NAME)
    os.makedirs(os.path.dirname(path), exist_ok=True)
    if not os.path.exists(path) or open(path).read() != text:
        with open(path, "w") as fh:
            fh.write(text)
    return {fn: [k for k, x in enumerate(fs) if not x] for _, fn, fs in facts}
