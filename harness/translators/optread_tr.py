"""Translator: which global option every module of /repo/numpoly reads -> coq/Gen/GenOptRead.v

For every function of every module under numpoly/ (option.py itself excluded) the `ast` is searched
for reads of the option store:
   numpoly.get_options()["key"]   get_options()["key"]   X["key"] with X bound to get_options()
Anything else that touches the store (the dict passed on, .get(), iteration, _NUMPOLY_OPTIONS or
GLOBAL_OPTIONS_DEFAULTS referenced outside option.py, set_options/global_options called by library
code) is not understood: fail closed.

Each read becomes a pair (key class, module class):
   key classes     0 display_*   1 sort_*   2 retain_*   3 naming (default_varname, varname_filter, force_number_suffix)
   module classes  0 printing (array_repr.py, array_str.py)
                   1 ordering (the comparison / extreme functions that are DEFINED by the monomial order)
                   2 cleaning (construct/clean.py)
                   3 anything else
The bridge lemma states: display keys are read by printing modules only, sort keys by ordering
modules only, retain keys by the cleaning module only."""
from __future__ import annotations

import ast
import os

GEN_NAME = "GenOptRead.v"

KEY_CLASS = {"display_graded": 0, "display_reverse": 0, "display_inverse": 0, "display_exponent": 0, "display_multiply": 0,
             "sort_graded": 1, "sort_reverse": 1, "retain_names": 2, "retain_coefficients": 2,
             "default_varname": 3, "varname_filter": 3, "force_number_suffix": 3}
PRINTING = {"array_function/array_repr.py", "array_function/array_str.py"}
ORDERING = {f"array_function/{n}.py" for n in ("greater", "greater_equal", "less", "less_equal", "maximum", "minimum",
                                               "amax", "amin", "argmax", "argmin")}
CLEANING = {"construct/clean.py"}


class TranslatorError(Exception):
    pass


def _is_get_options(call):
    return isinstance(call, ast.Call) and ast.unparse(call.func) in ("numpoly.get_options", "get_options", "option.get_options",
                                                                     "numpoly.option.get_options") and not call.args and not call.keywords


def reads_of(path, rel):
    tree = ast.parse(open(path).read())
    reads = []
    for node in ast.walk(tree):
        if isinstance(node, ast.Name) and node.id in ("_NUMPOLY_OPTIONS", "GLOBAL_OPTIONS_DEFAULTS"):
            raise TranslatorError(f"{rel}: touches {node.id} directly")
        if isinstance(node, ast.Attribute) and node.attr in ("_NUMPOLY_OPTIONS", "GLOBAL_OPTIONS_DEFAULTS"):
            raise TranslatorError(f"{rel}: touches {node.attr} directly")
        if isinstance(node, ast.Call) and ast.unparse(node.func).split(".")[-1] in ("set_options", "global_options"):
            raise TranslatorError(f"{rel}: library code calls {ast.unparse(node.func)}")
    scopes = [n for n in ast.walk(tree) if isinstance(n, (ast.FunctionDef, ast.AsyncFunctionDef))] + [tree]
    seen_calls = set()
    for sc in scopes:
        bound = set()
        for node in ast.walk(sc):
            if isinstance(node, ast.Assign) and _is_get_options(node.value):
                for t in node.targets:
                    if not isinstance(t, ast.Name):
                        raise TranslatorError(f"{rel}: get_options() bound to a non-name")
                    bound.add(t.id)
                seen_calls.add(id(node.value))
        for node in ast.walk(sc):
            if isinstance(node, ast.Subscript):
                base = node.value
                if _is_get_options(base) or (isinstance(base, ast.Name) and base.id in bound):
                    if not (isinstance(node.slice, ast.Constant) and isinstance(node.slice.value, str)):
                        raise TranslatorError(f"{rel}: option read with a computed key")
                    if not isinstance(node.ctx, ast.Load):
                        raise TranslatorError(f"{rel}: writes into an options dict")
                    reads.append(node.slice.value)
                    if _is_get_options(base):
                        seen_calls.add(id(base))
        # every other use of a bound options dict is not understood
        for node in ast.walk(sc):
            if isinstance(node, ast.Name) and node.id in bound and isinstance(node.ctx, ast.Load):
                parent_ok = any(isinstance(p, ast.Subscript) and p.value is node for p in ast.walk(sc))
                if not parent_ok:
                    raise TranslatorError(f"{rel}: options dict {node.id} used other than by subscript")
    for node in ast.walk(tree):
        if _is_get_options(node) and id(node) not in seen_calls:
            raise TranslatorError(f"{rel}: get_options() result used in an unrecognised way (line {node.lineno})")
    return sorted(set(reads))


def collect(repo):
    root = os.path.join(repo, "numpoly")
    table = {}
    for d, _, files in sorted(os.walk(root)):
        for fn in sorted(files):
            if not fn.endswith(".py"):
                continue
            rel = os.path.relpath(os.path.join(d, fn), root)
            if rel == "option.py":
                continue
            r = reads_of(os.path.join(d, fn), rel)
            if r:
                table[rel] = r
    return table


def module_class(rel):
    return 0 if rel in PRINTING else 1 if rel in ORDERING else 2 if rel in CLEANING else 3


def generate(repo, coq_dir):
    table = collect(repo)
    pairs = []
    for rel, keys in sorted(table.items()):
        for k in keys:
            if k not in KEY_CLASS:
                raise TranslatorError(f"{rel}: reads unknown option {k!r}")
            pairs.append((KEY_CLASS[k], module_class(rel)))
    text = ("(* GENERATED by harness/translators/optread_tr.py from every module under numpoly/ — do not edit.\n"
            "   One pair (key class, module class) per (module, option key) read; see the translator for the classes. *)\n"
            "From mathcomp Require Import all_ssreflect.\n"
            f"Definition gen_option_reads : seq (nat * nat) := [:: {'; '.join(f'({a}, {b})' for a, b in pairs)}].\n")
    path = os.path.join(coq_dir, "Gen", GEN_NAME)
    os.makedirs(os.path.dirname(path), exist_ok=True)
    if not os.path.exists(path) or open(path).read() != text:
        with open(path, "w") as fh:
            fh.write(text)
    return table
