"""Translators from /repo sources to coq/Gen/*.v (regenerated on every run)."""
from __future__ import annotations


def all_translators():
    from . import option_tr, key_tr, sort_tr, compare_tr, clean_tr, dispatch_tr
    base = [("GenOptions.v", option_tr), ("GenKey.v", key_tr), ("GenSort.v", sort_tr), ("GenCompare.v", compare_tr),
            ("GenClean.v", clean_tr), ("GenDispatch.v", dispatch_tr)]
    # any further harness/translators/<x>_tr.py that defines GEN_NAME and generate(repo, coq_dir) is picked up too
    import importlib
    import os
    import pkgutil
    have = {m.__name__.rsplit(".", 1)[-1] for _, m in base}
    for info in sorted(pkgutil.iter_modules([os.path.dirname(__file__)]), key=lambda i: i.name):
        if info.name.endswith("_tr") and info.name not in have:
            mod = importlib.import_module(f"{__name__}.{info.name}")
            if hasattr(mod, "generate") and hasattr(mod, "GEN_NAME"):
                base.append((mod.GEN_NAME, mod))
    return base


def generate_all(repo, coq_dir, fallback=False):
    """Run every translator.  Returns the list of failures.  With fallback=True a failing
    translator leaves the previous/committed fallback file in place so that `make` of the
    static part still succeeds (the check of the affected property reports the failure)."""
    errs = []
    for name, mod in all_translators():
        try:
            mod.generate(repo, coq_dir)
        except Exception as exc:  # noqa: BLE001
            errs.append(f"{name}: {type(exc).__name__}: {exc}")
    return errs
