"""Translators from /repo sources to coq/Gen/*.v (regenerated on every run)."""
from __future__ import annotations


def all_translators():
    from . import option_tr, key_tr, sort_tr, compare_tr, clean_tr, dispatch_tr
    return [("GenOptions.v", option_tr), ("GenKey.v", key_tr), ("GenSort.v", sort_tr), ("GenCompare.v", compare_tr),
            ("GenClean.v", clean_tr), ("GenDispatch.v", dispatch_tr)]


def generate_all(repo, coq_dir, fallback=False):
    """Run every translator.  Returns the list of failures.  With fallback=True a failing
    translator leaves the previous/committed fallback file in place so that `make` of the
    static part still succeeds (the check of the affected property reports the failure)."""
    errs = []
    for name, mod in all_translators():
        try:
            mod.generate(repo, coq_dir)
        except Exception as exc:  # noqa: BLE001
            errs.append(f"{name}: {type(exc).__name__}: {exc}")
    return errs
