"""Fail-closed translator: /repo/numpoly/option.py  ->  coq/Gen/GenOptions.v

Extracts the facts the Options.v model is parametrised by (record `ocode`) and the
shipped defaults table.  Anything outside the recognised shapes raises TranslatorError."""
from __future__ import annotations

import ast
import os


class TranslatorError(Exception):
    pass


def _strip_doc(body):
    if body and isinstance(body[0], ast.Expr) and isinstance(getattr(body[0], "value", None), ast.Constant) \
            and isinstance(body[0].value.value, str):
        return body[1:]
    return body


def _is_name(e, name):
    return isinstance(e, ast.Name) and e.id == name


def copy_kind(e, name):
    """True: a fresh shallow copy of `name`; False: `name` itself; else TranslatorError."""
    if _is_name(e, name):
        return False
    if isinstance(e, ast.Call):
        f = e.func
        if isinstance(f, ast.Attribute) and f.attr == "copy" and _is_name(f.value, name) and not e.args:
            return True
        if isinstance(f, ast.Name) and f.id == "dict" and len(e.args) == 1 and _is_name(e.args[0], name) and not e.keywords:
            return True
        if isinstance(f, ast.Attribute) and f.attr in ("copy", "deepcopy") and isinstance(f.value, ast.Name) \
                and f.value.id == "copy" and len(e.args) == 1 and _is_name(e.args[0], name):
            return True
    if isinstance(e, ast.Dict) and e.keys == [None] and _is_name(e.values[0], name):
        return True
    raise TranslatorError(f"unrecognised expression for a copy of {name}: {ast.dump(e)[:120]}")


def _call_star(e, fname, star):
    """e is `fname(**star)`"""
    return (isinstance(e, ast.Call) and isinstance(e.func, ast.Name) and e.func.id == fname and not e.args
            and len(e.keywords) == 1 and e.keywords[0].arg is None and _is_name(e.keywords[0].value, star))


def translate(src: str):
    tree = ast.parse(src)
    defaults_name, store_name = None, None
    keys, init_copies = None, None
    funcs = {}
    for node in tree.body:
        if isinstance(node, ast.Assign) and len(node.targets) == 1 and isinstance(node.targets[0], ast.Name):
            tgt = node.targets[0].id
            if isinstance(node.value, ast.Dict) and defaults_name is None:
                if not all(isinstance(k, ast.Constant) and isinstance(k.value, str) for k in node.value.keys):
                    raise TranslatorError("defaults table with non-literal keys")
                defaults_name = tgt
                keys = [k.value for k in node.value.keys]
                if len(set(keys)) != len(keys):
                    raise TranslatorError("duplicate keys in the defaults literal")
            elif defaults_name is not None and store_name is None:
                store_name = tgt
                init_copies = copy_kind(node.value, defaults_name)
            else:
                raise TranslatorError(f"unexpected module-level assignment to {tgt}")
        elif isinstance(node, ast.FunctionDef):
            funcs[node.name] = node
        elif isinstance(node, (ast.Import, ast.ImportFrom)):
            continue
        elif isinstance(node, ast.Expr) and isinstance(node.value, ast.Constant):
            continue
        else:
            raise TranslatorError(f"unexpected module-level statement {type(node).__name__}")
    if defaults_name is None or store_name is None:
        raise TranslatorError("defaults table or live store not found")
    for f in ("get_options", "set_options", "global_options"):
        if f not in funcs:
            raise TranslatorError(f"function {f} missing")
    if set(funcs) != {"get_options", "set_options", "global_options"}:
        raise TranslatorError(f"unexpected functions {sorted(funcs)}")

    # ---- get_options(defaults=False) ------------------------------------------------
    g = funcs["get_options"]
    if [a.arg for a in g.args.args] != ["defaults"] or g.args.vararg or g.args.kwarg:
        raise TranslatorError("get_options signature")
    body = _strip_doc(g.body)
    if (len(body) == 2 and isinstance(body[0], ast.If) and _is_name(body[0].test, "defaults")
            and len(body[0].body) == 1 and isinstance(body[0].body[0], ast.Return) and not body[0].orelse
            and isinstance(body[1], ast.Return)):
        getdef_copies = copy_kind(body[0].body[0].value, defaults_name)
        get_copies = copy_kind(body[1].value, store_name)
    elif len(body) == 1 and isinstance(body[0], ast.Return) and isinstance(body[0].value, ast.IfExp) \
            and _is_name(body[0].value.test, "defaults"):
        getdef_copies = copy_kind(body[0].value.body, defaults_name)
        get_copies = copy_kind(body[0].value.orelse, store_name)
    else:
        raise TranslatorError("get_options body shape")

    # ---- set_options(**kwargs) ----------------------------------------------------
    s = funcs["set_options"]
    if s.args.args or s.args.vararg or not s.args.kwarg:
        raise TranslatorError("set_options signature")
    kw = s.args.kwarg.arg
    body = _strip_doc(s.body)

    def is_check(stmt, keyvar):
        return (isinstance(stmt, ast.If) and isinstance(stmt.test, ast.Compare) and _is_name(stmt.test.left, keyvar)
                and len(stmt.test.ops) == 1 and isinstance(stmt.test.ops[0], ast.NotIn)
                and _is_name(stmt.test.comparators[0], store_name) and not stmt.orelse and len(stmt.body) == 1
                and isinstance(stmt.body[0], ast.Raise) and isinstance(stmt.body[0].exc, ast.Call)
                and _is_name(stmt.body[0].exc.func, "KeyError"))

    def is_update_all(stmt):
        if not (isinstance(stmt, ast.Expr) and isinstance(stmt.value, ast.Call)):
            return False
        c = stmt.value
        if not (isinstance(c.func, ast.Attribute) and c.func.attr == "update" and _is_name(c.func.value, store_name)):
            return False
        if not c.args and len(c.keywords) == 1 and c.keywords[0].arg is None and _is_name(c.keywords[0].value, kw):
            return True
        return len(c.args) == 1 and _is_name(c.args[0], kw) and not c.keywords

    def is_update_one(stmt, keyvar):
        return (isinstance(stmt, ast.Assign) and len(stmt.targets) == 1 and isinstance(stmt.targets[0], ast.Subscript)
                and _is_name(stmt.targets[0].value, store_name) and _is_name(stmt.targets[0].slice, keyvar)
                and isinstance(stmt.value, ast.Subscript) and _is_name(stmt.value.value, kw)
                and _is_name(stmt.value.slice, keyvar))

    def is_for_kwargs(stmt):
        return isinstance(stmt, ast.For) and isinstance(stmt.target, ast.Name) and _is_name(stmt.iter, kw) and not stmt.orelse

    if len(body) == 2 and is_for_kwargs(body[0]) and len(body[0].body) == 1 \
            and is_check(body[0].body[0], body[0].target.id) and is_update_all(body[1]):
        validates, validate_first = True, True
    elif len(body) == 1 and is_for_kwargs(body[0]) and len(body[0].body) == 2 \
            and is_check(body[0].body[0], body[0].target.id) and is_update_one(body[0].body[1], body[0].target.id):
        validates, validate_first = True, False
    elif len(body) == 1 and is_update_all(body[0]):
        validates, validate_first = False, True
    else:
        raise TranslatorError("set_options body shape")

    # ---- global_options(**kwargs) --------------------------------------------------
    b = funcs["global_options"]
    decos = [d.id if isinstance(d, ast.Name) else getattr(d, "attr", None) for d in b.decorator_list]
    if decos != ["contextmanager"]:
        raise TranslatorError("global_options is not a plain @contextmanager")
    if b.args.args or b.args.vararg or not b.args.kwarg:
        raise TranslatorError("global_options signature")
    bkw = b.args.kwarg.arg
    body = _strip_doc(b.body)

    def is_yield(stmt):
        return isinstance(stmt, ast.Expr) and isinstance(stmt.value, ast.Yield)

    def snapshot_kind(stmt):
        if not (isinstance(stmt, ast.Assign) and len(stmt.targets) == 1 and isinstance(stmt.targets[0], ast.Name)):
            return None
        v = stmt.value
        if isinstance(v, ast.Call) and _is_name(v.func, "get_options") and not v.args and not v.keywords:
            return stmt.targets[0].id, 1
        return stmt.targets[0].id, (2 if copy_kind(v, store_name) else 0)

    snap = snapshot_kind(body[0]) if body else None
    if snap is None:
        raise TranslatorError("global_options: first statement is not the snapshot")
    snapvar, kind = snap
    rest = body[1:]
    if not rest or not (isinstance(rest[0], ast.Expr) and _call_star(rest[0].value, "set_options", bkw)):
        raise TranslatorError("global_options: set_options(**kwargs) does not follow the snapshot")
    rest = rest[1:]

    def is_restore(stmt):
        return isinstance(stmt, ast.Expr) and _call_star(stmt.value, "set_options", snapvar)

    if len(rest) == 1 and isinstance(rest[0], ast.Try) and not rest[0].handlers and not rest[0].orelse \
            and len(rest[0].body) == 1 and is_yield(rest[0].body[0]) \
            and len(rest[0].finalbody) == 1 and is_restore(rest[0].finalbody[0]):
        fin, restores = True, True
    elif len(rest) == 2 and is_yield(rest[0]) and is_restore(rest[1]):
        fin, restores = False, True
    elif len(rest) == 1 and is_yield(rest[0]):
        fin, restores = False, False
    else:
        raise TranslatorError("global_options: try/yield/finally shape")

    return {
        "keys": keys,
        "code": dict(init_copies=init_copies, get_copies=get_copies, getdef_copies=getdef_copies,
                     validate_first=validate_first, validates=validates, snapshot=kind,
                     fin=fin, restores=restores),
    }


def emit(info) -> str:
    c = info["code"]
    b = lambda x: "true" if x else "false"  # noqa: E731
    keys = info["keys"]
    lines = [
        "(* GENERATED by harness/translators/option_tr.py from /repo/numpoly/option.py — do not edit *)",
        "From mathcomp Require Import all_ssreflect.",
        "From NP Require Import Options.",
        "(* option keys, by index: " + ", ".join(f"{i}={k}" for i, k in enumerate(keys)) + " *)",
        f"Definition gen_nkeys : nat := {len(keys)}.",
        "Definition gen_defaults : store := [:: " + "; ".join(f"({i}, 0)" for i in range(len(keys))) + "].",
        f"Definition gen_code : ocode := OCode {b(c['init_copies'])} {b(c['get_copies'])} {b(c['getdef_copies'])} "
        f"{b(c['validate_first'])} {b(c['validates'])} {c['snapshot']} {b(c['fin'])} {b(c['restores'])}.",
    ]
    return "\n".join(lines) + "\n"


def generate(repo: str, coq_dir: str):
    src = open(os.path.join(repo, "numpoly", "option.py")).read()
    info = translate(src)
    os.makedirs(os.path.join(coq_dir, "Gen"), exist_ok=True)
    path = os.path.join(coq_dir, "Gen", "GenOptions.v")
    text = emit(info)
    if not os.path.exists(path) or open(path).read() != text:
        with open(path, "w") as fh:
            fh.write(text)
    return info


if __name__ == "__main__":
    import sys
    print(emit(translate(open(sys.argv[1]).read())))
