"""Fail-closed translator: numpoly/array_function/array_repr.py (+ array_str.py) -> coq/Gen/GenShow.v

Reads, by `ast`, the facts the model Model/Show.v assumes about `_to_string` / `to_string`:
which option feeds which glexsort flag, the inversion, the zero skip, the two elision tests,
the multiplication-sign guard, the exponent threshold, the rule that decides about "+", the
all-zero fallback, and that array_str/array_repr both print through `to_string` with formatter str.
Anything outside the recognised shapes raises TranslatorError."""
from __future__ import annotations

import ast
import os

GEN_NAME = "GenShow.v"
OPTION_KEYS = {"display_graded": 1, "display_reverse": 2, "display_inverse": 3,
               "display_exponent": 4, "display_multiply": 5}


class TranslatorError(Exception):
    pass


def _strip_doc(body):
    if body and isinstance(body[0], ast.Expr) and isinstance(getattr(body[0], "value", None), ast.Constant) \
            and isinstance(body[0].value.value, str):
        return body[1:]
    return body


def _chain(e):
    parts = []
    while isinstance(e, ast.Attribute):
        parts.append(e.attr)
        e = e.value
    if isinstance(e, ast.Name):
        parts.append(e.id)
    return ".".join(reversed(parts))


def _is_name(e, name):
    return isinstance(e, ast.Name) and e.id == name


def _option(e, optvar):
    """e is `<optvar>["key"]` -> key number"""
    if isinstance(e, ast.Subscript) and _is_name(e.value, optvar) and isinstance(e.slice, ast.Constant) \
            and e.slice.value in OPTION_KEYS:
        return OPTION_KEYS[e.slice.value]
    raise TranslatorError(f"not a display option lookup: {ast.dump(e)[:100]}")


def _sub(e, arr, idx):
    """e is `<arr>[<idx>]`"""
    return isinstance(e, ast.Subscript) and _is_name(e.value, arr) and _is_name(e.slice, idx)


def _const(e, value):
    if isinstance(e, ast.Constant) and e.value == value and type(e.value) is type(value):
        return True
    if isinstance(value, int) and value < 0 and isinstance(e, ast.UnaryOp) and isinstance(e.op, ast.USub):
        return isinstance(e.operand, ast.Constant) and e.operand.value == -value
    return False


def _is_continue(body):
    return len(body) == 1 and isinstance(body[0], ast.Continue)


def _assign_to(stmt, name):
    return isinstance(stmt, ast.Assign) and len(stmt.targets) == 1 and _is_name(stmt.targets[0], name)


def _augadd(stmt, name):
    return isinstance(stmt, ast.AugAssign) and _is_name(stmt.target, name) and isinstance(stmt.op, ast.Add)


def translate(repo):
    path = os.path.join(repo, "numpoly", "array_function", "array_repr.py")
    tree = ast.parse(open(path).read())
    funcs = {n.name: n for n in tree.body if isinstance(n, ast.FunctionDef)}
    for f in ("array_repr", "to_string", "_to_string"):
        if f not in funcs:
            raise TranslatorError(f"function {f} missing in array_repr.py")

    # ---------------- _to_string ------------------------------------------------------------
    fn = funcs["_to_string"]
    if [a.arg for a in fn.args.args] != ["poly", "precision", "suppress_small"]:
        raise TranslatorError("_to_string signature")
    body = _strip_doc(fn.body)
    loops = [s for s in body if isinstance(s, ast.For)]
    if len(loops) != 1 or not isinstance(body[-1], ast.Return) or not isinstance(body[-1].value, ast.Name):
        raise TranslatorError("_to_string: one loop followed by `return <list>` expected")
    OUTPUT = body[-1].value.id          # the list of term texts
    INDICES = None                      # the sorted index list
    pre = body[:body.index(loops[0])]
    if body.index(loops[0]) != len(body) - 2:
        raise TranslatorError("_to_string: statements between the loop and the return")
    facts = {}
    exps = coefs = optvar = None
    seen_sort = seen_inv = seen_out = False
    for st in pre:
        tgt = st.target if isinstance(st, ast.AnnAssign) else (st.targets[0] if isinstance(st, ast.Assign) and len(st.targets) == 1 else None)
        if isinstance(st, (ast.Assign, ast.AnnAssign)) and isinstance(tgt, ast.Name):
            v = st.value
            chain = _chain(v.func) if isinstance(v, ast.Call) else _chain(v)
            if chain in ("poly.exponents.copy", "poly.exponents"):
                exps = tgt.id
            elif chain == "poly.coefficients":
                coefs = tgt.id
            elif chain == "numpoly.get_options" and not v.args and not v.keywords:
                optvar = tgt.id
            elif isinstance(v, ast.List) and not v.elts and tgt.id == OUTPUT:
                seen_out = True
            elif chain == "numpoly.glexsort":
                INDICES = tgt.id
                if exps is None or optvar is None:
                    raise TranslatorError("glexsort before exponents/options are bound")
                if not (len(v.args) == 1 and isinstance(v.args[0], ast.Attribute) and v.args[0].attr == "T"
                        and _is_name(v.args[0].value, exps)):
                    raise TranslatorError("glexsort is not called on exponents.T")
                kw = {k.arg: k.value for k in v.keywords}
                if set(kw) != {"graded", "reverse"}:
                    raise TranslatorError("glexsort keywords")
                facts["graded_key"] = _option(kw["graded"], optvar)
                facts["reverse_key"] = _option(kw["reverse"], optvar)
                seen_sort = True
            else:
                raise TranslatorError(f"_to_string: unrecognised assignment to {tgt.id}")
        elif isinstance(st, ast.If) and seen_sort and not st.orelse and len(st.body) == 1 and _assign_to(st.body[0], INDICES):
            facts["inverse_key"] = _option(st.test, optvar)
            v = st.body[0].value
            ok = (isinstance(v, ast.Subscript) and _is_name(v.value, INDICES) and isinstance(v.slice, ast.Slice)
                  and v.slice.lower is None and v.slice.upper is None and _const(v.slice.step, -1))
            if not ok:
                raise TranslatorError("display_inverse branch is not indices[::-1]")
            facts["inverse_reverses"] = True
            seen_inv = True
        else:
            raise TranslatorError(f"_to_string: unrecognised statement {type(st).__name__} before the loop")
    if not (seen_sort and seen_inv and seen_out and coefs and exps):
        raise TranslatorError("_to_string: preamble incomplete")

    loop = loops[0]
    if not (_is_name(loop.iter, INDICES) and isinstance(loop.target, ast.Name)) or loop.orelse:
        raise TranslatorError("loop header")
    idx = loop.target.id
    lb = list(loop.body)

    def coef(e):
        return _sub(e, coefs, idx)

    # 1. zero skip
    st = lb.pop(0)
    if not (isinstance(st, ast.If) and isinstance(st.test, ast.UnaryOp) and isinstance(st.test.op, ast.Not)
            and coef(st.test.operand) and _is_continue(st.body) and not st.orelse):
        raise TranslatorError("zero-coefficient skip not recognised")
    facts["skip_zero"] = True
    # 2. optional suppress_small skip (inactive at numpy's default print options; recorded assumption)
    facts["suppress_small_branch"] = False
    if lb and isinstance(lb[0], ast.If) and isinstance(lb[0].test, ast.BoolOp) and isinstance(lb[0].test.op, ast.And) \
            and _is_name(lb[0].test.values[0], "suppress_small") and _is_continue(lb[0].body) and not lb[0].orelse:
        lb.pop(0)
        facts["suppress_small_branch"] = True
    # 3. elision chain
    st = lb.pop(0)

    def elide_test(t, value):
        """coefficients[idx] == value and any(exponents[idx])"""
        return (isinstance(t, ast.BoolOp) and isinstance(t.op, ast.And) and len(t.values) == 2
                and isinstance(t.values[0], ast.Compare) and coef(t.values[0].left) and len(t.values[0].ops) == 1
                and isinstance(t.values[0].ops[0], ast.Eq) and _const(t.values[0].comparators[0], value)
                and isinstance(t.values[1], ast.Call) and _is_name(t.values[1].func, "any")
                and len(t.values[1].args) == 1 and _sub(t.values[1].args[0], exps, idx))

    if not (isinstance(st, ast.If) and len(st.body) == 1 and isinstance(st.body[0], ast.Assign)
            and len(st.body[0].targets) == 1 and isinstance(st.body[0].targets[0], ast.Name)):
        raise TranslatorError("elision of coefficient 1 not recognised")
    OUT = st.body[0].targets[0].id      # the text of the current term

    def out_is(stmts, pred):
        return len(stmts) == 1 and _assign_to(stmts[0], OUT) and pred(stmts[0].value)

    ok = (isinstance(st, ast.If) and elide_test(st.test, 1) and out_is(st.body, lambda v: _const(v, ""))
          and len(st.orelse) == 1 and isinstance(st.orelse[0], ast.If))
    if not ok:
        raise TranslatorError("elision of coefficient 1 not recognised")
    st2 = st.orelse[0]
    ok = (elide_test(st2.test, -1) and out_is(st2.body, lambda v: _const(v, "-"))
          and out_is(st2.orelse, lambda v: isinstance(v, ast.Call) and _is_name(v.func, "str") and len(v.args) == 1 and coef(v.args[0])))
    if not ok:
        raise TranslatorError("elision of coefficient -1 / str(coefficient) not recognised")
    facts["one_elided"] = facts["mone_elided"] = facts["elide_needs_any"] = True
    # 4. the factor loop
    if lb and isinstance(lb[0], ast.Assign):      # exps_and_names = list(zip(exponents[idx], poly.names))
        st = lb.pop(0)
        zv = st.targets[0].id if isinstance(st.targets[0], ast.Name) else None
        calls = [n for n in ast.walk(st.value) if isinstance(n, ast.Call) and _is_name(n.func, "zip")]
        if zv is None or len(calls) != 1:
            raise TranslatorError("zip of exponents and names")
        z = calls[0]
        floop = lb.pop(0)
        if not (isinstance(floop, ast.For) and _is_name(floop.iter, zv)):
            raise TranslatorError("factor loop")
    else:
        floop = lb.pop(0)
        if not (isinstance(floop, ast.For) and isinstance(floop.iter, ast.Call) and _is_name(floop.iter.func, "zip")):
            raise TranslatorError("factor loop")
        z = floop.iter
    if not (len(z.args) == 2 and _sub(z.args[0], exps, idx) and _chain(z.args[1]) == "poly.names"):
        raise TranslatorError("factor loop does not zip exponents[idx] with poly.names")
    if not (isinstance(floop.target, ast.Tuple) and len(floop.target.elts) == 2 and len(floop.body) == 2 and not floop.orelse):
        raise TranslatorError("factor loop shape")
    ev, nv = floop.target.elts[0].id, floop.target.elts[1].id
    f1, f2 = floop.body
    ok1 = (isinstance(f1, ast.If) and _is_name(f1.test, ev) and not f1.orelse and len(f1.body) == 2
           and isinstance(f1.body[0], ast.If) and not f1.body[0].orelse and len(f1.body[0].body) == 1
           and _augadd(f1.body[0].body[0], OUT) and _augadd(f1.body[1], OUT) and _is_name(f1.body[1].value, nv))
    if not ok1:
        raise TranslatorError("name factor not recognised")
    g = f1.body[0].test
    okg = (isinstance(g, ast.Compare) and _is_name(g.left, OUT) and len(g.ops) == 1 and isinstance(g.ops[0], ast.NotIn)
           and isinstance(g.comparators[0], (ast.Tuple, ast.List, ast.Set))
           and sorted(getattr(c, "value", None) for c in g.comparators[0].elts) == ["", "-"])
    if not okg:
        raise TranslatorError("multiplication-sign guard is not `out not in ('', '-')`")
    facts["mul_guard"] = True
    facts["mul_key"] = _option(f1.body[0].body[0].value, optvar)
    ok2 = (isinstance(f2, ast.If) and isinstance(f2.test, ast.Compare) and _is_name(f2.test.left, ev)
           and len(f2.test.ops) == 1 and isinstance(f2.test.ops[0], ast.Gt) and isinstance(f2.test.comparators[0], ast.Constant)
           and isinstance(f2.test.comparators[0].value, int) and not f2.orelse and len(f2.body) == 1 and _augadd(f2.body[0], OUT))
    if not ok2:
        raise TranslatorError("exponent part not recognised")
    facts["pow_threshold"] = f2.test.comparators[0].value
    v = f2.body[0].value
    if not (isinstance(v, ast.BinOp) and isinstance(v.op, ast.Add) and isinstance(v.right, ast.Call)
            and _is_name(v.right.func, "str") and _is_name(v.right.args[0], ev)):
        raise TranslatorError("exponent text is not sign + str(exponent)")
    facts["pow_key"] = _option(v.left, optvar)
    # 5. the plus rule
    st = lb.pop(0)
    ok = (isinstance(st, ast.If) and isinstance(st.test, ast.BoolOp) and isinstance(st.test.op, ast.And)
          and len(st.test.values) == 2 and _is_name(st.test.values[0], OUTPUT) and not st.orelse
          and len(st.body) == 1 and _assign_to(st.body[0], OUT) and isinstance(st.body[0].value, ast.BinOp)
          and isinstance(st.body[0].value.op, ast.Add) and _const(st.body[0].value.left, "+")
          and _is_name(st.body[0].value.right, OUT))
    if not ok:
        raise TranslatorError("plus statement not recognised")
    t = st.test.values[1]
    if (isinstance(t, ast.Compare) and len(t.ops) == 1 and isinstance(t.ops[0], ast.GtE) and _const(t.comparators[0], 0)
            and isinstance(t.left, ast.Call) and _is_name(t.left.func, "float") and len(t.left.args) == 1 and coef(t.left.args[0])):
        facts["plus_rule"] = "PlusByValue"
    elif (isinstance(t, ast.UnaryOp) and isinstance(t.op, ast.Not) and isinstance(t.operand, ast.Call)
          and isinstance(t.operand.func, ast.Attribute) and t.operand.func.attr == "startswith"
          and _is_name(t.operand.func.value, OUT) and len(t.operand.args) == 1 and _const(t.operand.args[0], "-")):
        facts["plus_rule"] = "PlusByText"
    else:
        raise TranslatorError("the test that decides about '+' is neither float(c) >= 0 nor not out.startswith('-')")
    # 6. append
    st = lb.pop(0)
    ok = (isinstance(st, ast.Expr) and isinstance(st.value, ast.Call) and _chain(st.value.func) == OUTPUT + ".append"
          and len(st.value.args) == 1 and _is_name(st.value.args[0], OUT))
    if not ok or lb:
        raise TranslatorError("end of the loop body not recognised")

    # ---------------- to_string: join / fallback ------------------------------------------------
    ts = funcs["to_string"]
    tail = _strip_doc(ts.body)[-3:]
    ok = (len(tail) == 3 and isinstance(tail[0], ast.Assign) and len(tail[0].targets) == 1
          and isinstance(tail[0].targets[0], ast.Name) and isinstance(tail[0].value, ast.Call)
          and _is_name(tail[0].value.func, "_to_string")
          and isinstance(tail[1], ast.If) and _is_name(tail[1].test, tail[0].targets[0].id) and len(tail[1].body) == 1
          and isinstance(tail[1].body[0], ast.Return) and isinstance(tail[1].body[0].value, ast.Call)
          and isinstance(tail[1].body[0].value.func, ast.Attribute) and tail[1].body[0].value.func.attr == "join"
          and _const(tail[1].body[0].value.func.value, "")
          and isinstance(tail[2], ast.Return))
    if not ok:
        raise TranslatorError("to_string: join/fallback shape")
    fb = tail[2].value
    zeros = [n for n in ast.walk(fb) if isinstance(n, ast.Call) and _chain(n.func) == "numpy.zeros"]
    if not (isinstance(fb, ast.Call) and _is_name(fb.func, "str") and len(zeros) == 1):
        raise TranslatorError("to_string: fallback is not str(numpy.zeros(...).item())")
    facts["zero_fallback"] = True
    rec = [n for n in ast.walk(ts) if isinstance(n, ast.ListComp)]
    if len(rec) != 1 or not _is_name(rec[0].generators[0].iter, "poly"):
        raise TranslatorError("to_string: recursion over the first axis not recognised")

    # ---------------- array_repr / array_str print through to_string with formatter str -------------
    def uses_to_string(fnode, fname):
        calls = [n for n in ast.walk(fnode) if isinstance(n, ast.Call)]
        if not any(_is_name(c.func, "to_string") for c in calls):
            raise TranslatorError(f"{fname} does not print through to_string")
        a2s = [c for c in calls if _chain(c.func) == "numpy.array2string"]
        if len(a2s) != 1:
            raise TranslatorError(f"{fname}: numpy.array2string call")
        kw = {k.arg: k.value for k in a2s[0].keywords}
        fm = kw.get("formatter")
        if not (isinstance(fm, ast.Dict) and len(fm.keys) == 1 and _const(fm.keys[0], "all") and _is_name(fm.values[0], "str")):
            raise TranslatorError(f"{fname}: formatter is not {{'all': str}}")
    uses_to_string(funcs["array_repr"], "array_repr")
    t2 = ast.parse(open(os.path.join(repo, "numpoly", "array_function", "array_str.py")).read())
    f2s = [n for n in t2.body if isinstance(n, ast.FunctionDef) and n.name == "array_str"]
    if len(f2s) != 1:
        raise TranslatorError("array_str missing")
    uses_to_string(f2s[0], "array_str")
    imp = [n for n in t2.body if isinstance(n, ast.ImportFrom) and n.module == "array_repr" and any(a.name == "to_string" for a in n.names)]
    if not imp:
        raise TranslatorError("array_str does not import to_string from array_repr")
    return facts


def emit(f):
    b = lambda x: "true" if x else "false"  # noqa: E731
    return "\n".join([
        "(* GENERATED by harness/translators/show_tr.py from array_function/array_repr.py, array_str.py — do not edit *)",
        "From NP Require Import Show.",
        "(* option keys: 1=display_graded 2=display_reverse 3=display_inverse 4=display_exponent 5=display_multiply *)",
        f"Definition gen_plus_rule : plus_rule := {f['plus_rule']}.",
        f"Definition gen_show_code : show_code := ShowCode {f['graded_key']} {f['reverse_key']} {f['inverse_key']} "
        f"{b(f['inverse_reverses'])} {b(f['skip_zero'])} {b(f['one_elided'])} {b(f['mone_elided'])} {b(f['elide_needs_any'])} "
        f"{b(f['mul_guard'])} {f['pow_threshold']} {f['pow_key']} {f['mul_key']} {b(f['zero_fallback'])}.",
    ]) + "\n"


def generate(repo, coq_dir):
    info = translate(repo)
    path = os.path.join(coq_dir, "Gen", GEN_NAME)
    text = emit(info)
    os.makedirs(os.path.dirname(path), exist_ok=True)
    if not os.path.exists(path) or open(path).read() != text:
        with open(path, "w") as fh:
            fh.write(text)
    return info


if __name__ == "__main__":
    import sys
    print(emit(translate(sys.argv[1])))
