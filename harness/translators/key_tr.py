"""Fail-closed translator for the storage-key facts:
   numpoly/baseclass.py (KEY_OFFSET, key <-> exponent formulas), numpoly/construct/polynomial.py
   (structured-array import), numpoly/array_function/multiply.py (when the compiled kernel is used)
   ->  coq/Gen/GenKey.v"""
from __future__ import annotations

import ast
import os


class TranslatorError(Exception):
    pass


def _attr_chain(e):
    parts = []
    while isinstance(e, ast.Attribute):
        parts.append(e.attr)
        e = e.value
    if isinstance(e, ast.Name):
        parts.append(e.id)
    return ".".join(reversed(parts))


def _is_offset(e):
    return isinstance(e, ast.Attribute) and e.attr == "KEY_OFFSET"


def _find(tree, pred):
    return [n for n in ast.walk(tree) if pred(n)]


def translate(repo):
    base = ast.parse(open(os.path.join(repo, "numpoly", "baseclass.py")).read())
    cls = [n for n in base.body if isinstance(n, ast.ClassDef) and n.name == "ndpoly"]
    if len(cls) != 1:
        raise TranslatorError("class ndpoly not found")
    cls = cls[0]
    offset = None
    for n in cls.body:
        tgt = None
        if isinstance(n, ast.AnnAssign) and isinstance(n.target, ast.Name):
            tgt, val = n.target.id, n.value
        elif isinstance(n, ast.Assign) and len(n.targets) == 1 and isinstance(n.targets[0], ast.Name):
            tgt, val = n.targets[0].id, n.value
        if tgt == "KEY_OFFSET":
            if not (isinstance(val, ast.Constant) and isinstance(val.value, int) and not isinstance(val.value, bool)):
                raise TranslatorError("KEY_OFFSET is not an integer literal")
            offset = val.value
    if offset is None:
        raise TranslatorError("KEY_OFFSET not found")
    funcs = {n.name: n for n in cls.body if isinstance(n, ast.FunctionDef)}
    if "__new__" not in funcs or "exponents" not in funcs:
        raise TranslatorError("__new__/exponents missing")
    # encode: (exponents + cls.KEY_OFFSET) with exponents cast to uint32 before
    new = funcs["__new__"]
    enc = _find(new, lambda n: isinstance(n, ast.BinOp) and isinstance(n.op, ast.Add)
                and isinstance(n.left, ast.Name) and n.left.id == "exponents" and _is_offset(n.right))
    cast = _find(new, lambda n: isinstance(n, ast.Call) and _attr_chain(n.func) == "numpy.array"
                 and any(k.arg == "dtype" and _attr_chain(k.value) == "numpy.uint32" for k in n.keywords))
    views = _find(new, lambda n: isinstance(n, ast.Call) and isinstance(n.func, ast.Attribute) and n.func.attr == "view")
    if len(enc) != 1 or not cast or not views:
        raise TranslatorError("key construction in ndpoly.__new__ not recognised")
    # decode: keys...view(numpy.uint32) - self.KEY_OFFSET
    dec = _find(funcs["exponents"], lambda n: isinstance(n, ast.BinOp) and isinstance(n.op, ast.Sub) and _is_offset(n.right)
                and isinstance(n.left, ast.Call) and isinstance(n.left.func, ast.Attribute) and n.left.func.attr == "view"
                and len(n.left.args) == 1 and _attr_chain(n.left.args[0]) == "numpy.uint32")
    if len(dec) != 1:
        raise TranslatorError("exponent decoding in ndpoly.exponents not recognised")
    poly = ast.parse(open(os.path.join(repo, "numpoly", "construct", "polynomial.py")).read())
    dec2 = _find(poly, lambda n: isinstance(n, ast.BinOp) and isinstance(n.op, ast.Sub) and _is_offset(n.right)
                 and isinstance(n.left, ast.Call) and isinstance(n.left.func, ast.Attribute) and n.left.func.attr == "view"
                 and len(n.left.args) == 1 and _attr_chain(n.left.args[0]) == "numpy.uint32")
    if len(dec2) != 1:
        raise TranslatorError("structured-array import in polynomial() not recognised")

    # multiply.py: is the compiled kernel guarded?
    mul = ast.parse(open(os.path.join(repo, "numpoly", "array_function", "multiply.py")).read())
    fn = [n for n in mul.body if isinstance(n, ast.FunctionDef) and n.name == "multiply"]
    if len(fn) != 1:
        raise TranslatorError("multiply() not found")
    fn = fn[0]

    def is_cmul(stmt):
        return (isinstance(stmt, ast.Expr) and isinstance(stmt.value, ast.Call)
                and _attr_chain(stmt.value.func) in ("numpoly.cmultiply", "cmultiply"))

    kind, bound = None, 0
    for stmt in fn.body:
        if is_cmul(stmt):
            kind, bound = 0, 0
            call = stmt.value
        elif isinstance(stmt, ast.If) and any(is_cmul(s) for s in stmt.body):
            t = stmt.test
            # further conjuncts (e.g. a dtype test) only make the kernel path rarer: the key bound is the first one
            if isinstance(t, ast.BoolOp) and isinstance(t.op, ast.And) and isinstance(t.values[0], ast.Compare):
                t = t.values[0]
            if not (isinstance(t, ast.Compare) and len(t.ops) == 1 and isinstance(t.ops[0], ast.Lt)
                    and isinstance(t.left, ast.Name) and isinstance(t.comparators[0], ast.Constant)
                    and isinstance(t.comparators[0].value, int)):
                raise TranslatorError("guard of the compiled multiply kernel not recognised")
            var = t.left.id
            # var = int(x1.exponents.max(initial=0)) + int(x2.exponents.max(initial=0)) + x1.KEY_OFFSET
            asg = [s for s in fn.body if isinstance(s, ast.Assign) and len(s.targets) == 1
                   and isinstance(s.targets[0], ast.Name) and s.targets[0].id == var]
            if len(asg) != 1:
                raise TranslatorError("guard variable of the multiply kernel not assigned exactly once")
            terms = []

            def flat(e):
                if isinstance(e, ast.BinOp) and isinstance(e.op, ast.Add):
                    flat(e.left)
                    flat(e.right)
                else:
                    terms.append(e)
            flat(asg[0].value)

            def is_max(e, who):
                if isinstance(e, ast.Call) and isinstance(e.func, ast.Name) and e.func.id == "int" and len(e.args) == 1:
                    e = e.args[0]
                return (isinstance(e, ast.Call) and isinstance(e.func, ast.Attribute) and e.func.attr == "max"
                        and _attr_chain(e.func.value) == f"{who}.exponents"
                        and all(k.arg == "initial" and isinstance(k.value, ast.Constant) and k.value.value == 0
                                for k in e.keywords) and not e.args)
            if not (len(terms) == 3 and is_max(terms[0], "x1") and is_max(terms[1], "x2") and _is_offset(terms[2])):
                raise TranslatorError("guard expression of the multiply kernel not recognised")
            if not stmt.orelse:
                raise TranslatorError("guarded multiply kernel without a fallback")
            kind, bound = 1, t.comparators[0].value
            call = [s for s in stmt.body if is_cmul(s)][0].value
    if kind is None:
        raise TranslatorError("call of the compiled multiply kernel not found at the top level of multiply()")
    if not any(_is_offset(a) for a in call.args):
        raise TranslatorError("cmultiply is not passed KEY_OFFSET")
    return {"offset": offset, "guard_kind": kind, "guard_bound": bound}


def emit(info):
    return "\n".join([
        "(* GENERATED by harness/translators/key_tr.py from baseclass.py, polynomial.py, multiply.py — do not edit *)",
        "From Coq Require Import NArith.",
        "Open Scope N_scope.",
        f"Definition gen_offset : N := {info['offset']}.",
        "(* 0: the compiled kernel is used unconditionally; 1: only if max(e1)+max(e2)+offset < bound *)",
        f"Definition gen_guard_kind : N := {info['guard_kind']}.",
        f"Definition gen_guard_bound : N := {info['guard_bound']}.",
    ]) + "\n"


def generate(repo, coq_dir):
    info = translate(repo)
    path = os.path.join(coq_dir, "Gen", "GenKey.v")
    text = emit(info)
    os.makedirs(os.path.dirname(path), exist_ok=True)
    if not os.path.exists(path) or open(path).read() != text:
        with open(path, "w") as fh:
            fh.write(text)
    return info


if __name__ == "__main__":
    import sys
    print(emit(translate(sys.argv[1])))
