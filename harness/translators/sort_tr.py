"""Fail-closed translator: numpoly/utils/glexsort.py, glexindex.py -> coq/Gen/GenSort.v"""
from __future__ import annotations

import ast
import os


class TranslatorError(Exception):
    pass


def _chain(e):
    parts = []
    while isinstance(e, ast.Attribute):
        parts.append(e.attr)
        e = e.value
    if isinstance(e, ast.Name):
        parts.append(e.id)
    return ".".join(reversed(parts))


def _strip_doc(body):
    if body and isinstance(body[0], ast.Expr) and isinstance(body[0].value, ast.Constant) and isinstance(body[0].value.value, str):
        return body[1:]
    return body


def translate(repo):
    tree = ast.parse(open(os.path.join(repo, "numpoly", "utils", "glexsort.py")).read())
    fn = [n for n in tree.body if isinstance(n, ast.FunctionDef) and n.name == "glexsort"]
    if len(fn) != 1:
        raise TranslatorError("glexsort not found")
    fn = fn[0]
    if [a.arg for a in fn.args.args] != ["keys", "graded", "reverse"]:
        raise TranslatorError("glexsort signature")
    body = _strip_doc(fn.body)
    if len(body) != 5:
        raise TranslatorError("glexsort body shape")
    a0, ifrev, a1, ifgr, ret = body
    # keys_ = numpy.atleast_2d(keys)
    if not (isinstance(a0, ast.Assign) and isinstance(a0.value, ast.Call) and _chain(a0.value.func) == "numpy.atleast_2d"):
        raise TranslatorError("atleast_2d")
    kv = a0.targets[0].id
    # if reverse: keys_ = keys_[::-1]
    ok_rev = (isinstance(ifrev, ast.If) and isinstance(ifrev.test, ast.Name) and ifrev.test.id == "reverse"
              and len(ifrev.body) == 1 and not ifrev.orelse and isinstance(ifrev.body[0], ast.Assign)
              and isinstance(ifrev.body[0].value, ast.Subscript) and isinstance(ifrev.body[0].value.slice, ast.Slice)
              and ifrev.body[0].value.slice.lower is None and ifrev.body[0].value.slice.upper is None
              and isinstance(ifrev.body[0].value.slice.step, ast.UnaryOp)
              and isinstance(ifrev.body[0].value.slice.step.op, ast.USub)
              and getattr(ifrev.body[0].value.slice.step.operand, "value", None) == 1
              and ifrev.body[0].targets[0].id == kv)
    if not ok_rev:
        raise TranslatorError("reverse branch")
    # indices = numpy.array(numpy.lexsort(keys_))
    lex = [n for n in ast.walk(a1) if isinstance(n, ast.Call) and _chain(n.func) == "numpy.lexsort"]
    if not (isinstance(a1, ast.Assign) and len(lex) == 1 and len(lex[0].args) == 1 and isinstance(lex[0].args[0], ast.Name)
            and lex[0].args[0].id == kv and not lex[0].keywords):
        raise TranslatorError("lexsort call")
    iv = a1.targets[0].id
    # if graded: indices = indices[numpy.argsort(numpy.sum(keys_[:, indices], axis=0) [, kind=...])].T
    if not (isinstance(ifgr, ast.If) and isinstance(ifgr.test, ast.Name) and ifgr.test.id == "graded"
            and len(ifgr.body) == 1 and not ifgr.orelse and isinstance(ifgr.body[0], ast.Assign)):
        raise TranslatorError("graded branch")
    args = [n for n in ast.walk(ifgr.body[0]) if isinstance(n, ast.Call) and _chain(n.func) == "numpy.argsort"]
    if len(args) != 1:
        raise TranslatorError("argsort call")
    arg = args[0]
    sums = [n for n in ast.walk(arg) if isinstance(n, ast.Call) and _chain(n.func) == "numpy.sum"]
    if len(arg.args) != 1 or len(sums) != 1 or not any(k.arg == "axis" and getattr(k.value, "value", None) == 0 for k in sums[0].keywords):
        raise TranslatorError("argsort argument")
    kind = None
    for k in arg.keywords:
        if k.arg == "kind" and isinstance(k.value, ast.Constant):
            kind = k.value.value
        elif k.arg == "stable" and isinstance(k.value, ast.Constant) and k.value.value is True:
            kind = "stable"
        else:
            raise TranslatorError("argsort keyword")
    stable = kind in ("stable", "mergesort")
    if not (isinstance(ret, ast.Return) and isinstance(ret.value, ast.Name) and ret.value.id == iv):
        raise TranslatorError("return")

    # glexindex.py: the final membership test of _glexindex
    t2 = ast.parse(open(os.path.join(repo, "numpoly", "utils", "glexindex.py")).read())
    g = [n for n in t2.body if isinstance(n, ast.FunctionDef) and n.name == "_glexindex"]
    if len(g) != 1:
        raise TranslatorError("_glexindex not found")
    combos = [n for n in ast.walk(g[0]) if isinstance(n, ast.Subscript) and isinstance(n.slice, (ast.BinOp, ast.UnaryOp))
              and any(isinstance(m, ast.Name) and m.id in ("lower", "upper") for m in ast.walk(n.slice))]
    if len(combos) != 1:
        raise TranslatorError("final test of _glexindex not recognised")
    sl = combos[0].slice
    comb = None
    if isinstance(sl, ast.BinOp) and isinstance(sl.left, ast.Name) and isinstance(sl.op, ast.BitXor) \
            and isinstance(sl.right, ast.Name) and {sl.left.id, sl.right.id} == {"lower", "upper"}:
        comb = 0          # lower ^ upper
    elif isinstance(sl, ast.BinOp) and isinstance(sl.op, ast.BitAnd):
        l, r = sl.left, sl.right
        def is_not(e, name):
            return isinstance(e, ast.UnaryOp) and isinstance(e.op, ast.Invert) and isinstance(e.operand, ast.Name) and e.operand.id == name
        def is_name(e, name):
            return isinstance(e, ast.Name) and e.id == name
        if (is_name(l, "upper") and is_not(r, "lower")) or (is_not(l, "lower") and is_name(r, "upper")):
            comb = 1      # upper & ~lower
    if comb is None:
        raise TranslatorError("final test of _glexindex not recognised")
    return {"stable": stable, "between": comb}


def emit(info):
    b = lambda x: "true" if x else "false"  # noqa: E731
    return "\n".join([
        "(* GENERATED by harness/translators/sort_tr.py from utils/glexsort.py, utils/glexindex.py — do not edit *)",
        f"Definition gen_argsort_stable : bool := {b(info['stable'])}.",
        "(* final membership test of _glexindex: 0 = lower xor upper, 1 = upper and not lower *)",
        f"Definition gen_between : nat := {info['between']}.",
    ]) + "\n"


def generate(repo, coq_dir):
    info = translate(repo)
    path = os.path.join(coq_dir, "Gen", "GenSort.v")
    text = emit(info)
    os.makedirs(os.path.dirname(path), exist_ok=True)
    if not os.path.exists(path) or open(path).read() != text:
        with open(path, "w") as fh:
            fh.write(text)
    return info


if __name__ == "__main__":
    import sys
    print(emit(translate(sys.argv[1])))
