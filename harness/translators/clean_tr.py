"""Fail-closed translator: construct/clean.py and align.py -> coq/Gen/GenClean.v

Extracts: the keep-term predicate and the all-removed fallback of remove_redundant_coefficients,
the used-name rule of remove_redundant_names, the order of the steps of postprocess_attributes,
the name sort key and the forced retain flags of the aligners."""
from __future__ import annotations

import ast
import os


class TranslatorError(Exception):
    pass


def _chain(e):
    parts = []
    while isinstance(e, ast.Attribute):
        parts.append(e.attr)
        e = e.value
    if isinstance(e, ast.Name):
        parts.append(e.id)
    return ".".join(reversed(parts))


def _funcs(tree):
    return {n.name: n for n in tree.body if isinstance(n, ast.FunctionDef)}


def _pred(e, cvar, evar):
    """Boolean term over A := numpy.any(coefficient), B := numpy.any(exponent)."""
    if isinstance(e, ast.BoolOp):
        op = "KOr" if isinstance(e.op, ast.Or) else "KAnd"
        out = _pred(e.values[0], cvar, evar)
        for v in e.values[1:]:
            out = f"({op} {out} {_pred(v, cvar, evar)})"
        return out
    if isinstance(e, ast.UnaryOp) and isinstance(e.op, ast.Not):
        return f"(KNot {_pred(e.operand, cvar, evar)})"
    if isinstance(e, ast.Call) and _chain(e.func) == "numpy.any" and len(e.args) == 1 and isinstance(e.args[0], ast.Name):
        if e.args[0].id == cvar:
            return "KA"
        if e.args[0].id == evar:
            return "KB"
    raise TranslatorError(f"keep-term predicate not recognised: {ast.dump(e)[:100]}")


def translate(repo):
    clean = ast.parse(open(os.path.join(repo, "numpoly", "construct", "clean.py")).read())
    f = _funcs(clean)
    for name in ("postprocess_attributes", "remove_redundant_coefficients", "remove_redundant_names"):
        if name not in f:
            raise TranslatorError(f"{name} missing")
    # ---- remove_redundant_coefficients ---------------------------------------------------
    rrc = f["remove_redundant_coefficients"]
    comps = [n for n in ast.walk(rrc) if isinstance(n, ast.ListComp)]
    keep = None
    for c in comps:
        g = c.generators[0]
        if (len(c.generators) == 1 and len(g.ifs) == 1 and isinstance(g.target, ast.Tuple) and len(g.target.elts) == 2
                and isinstance(g.iter, ast.Call) and getattr(g.iter.func, "id", None) == "zip"):
            evar, cvar = g.target.elts[0].id, g.target.elts[1].id
            if not (isinstance(c.elt, ast.Tuple) and [getattr(x, "id", None) for x in c.elt.elts] == [evar, cvar]):
                raise TranslatorError("filter comprehension does not keep (exponent, coefficient)")
            keep = _pred(g.ifs[0], cvar, evar)
    if keep is None:
        raise TranslatorError("keep-term comprehension not found")
    ifs = [n for n in rrc.body if isinstance(n, ast.If)]
    fallback = False
    for i in ifs:
        if isinstance(i.test, ast.UnaryOp) and isinstance(i.test.op, ast.Not) and isinstance(i.test.operand, ast.Name):
            zs = [n for n in ast.walk(i) if isinstance(n, ast.Call) and _chain(n.func) in ("numpy.zeros", "numpy.zeros_like")]
            fallback = len(zs) == 2
    # ---- remove_redundant_names ----------------------------------------------------------
    rrn = f["remove_redundant_names"]
    anyc = [n for n in ast.walk(rrn) if isinstance(n, ast.Call) and _chain(n.func) == "numpy.any" and len(n.args) == 2
            and isinstance(n.args[0], ast.Compare) and isinstance(n.args[0].ops[0], ast.NotEq)
            and getattr(n.args[0].comparators[0], "value", None) == 0 and getattr(n.args[1], "value", None) == 0]
    first = [n for n in ast.walk(rrn) if isinstance(n, ast.Assign) and isinstance(n.targets[0], ast.Subscript)
             and getattr(n.targets[0].slice, "value", None) == 0 and getattr(n.value, "value", None) is True]
    names_rule = len(anyc) == 1 and len(first) == 1
    # ---- postprocess_attributes: order of the steps ------------------------------------------
    pp = f["postprocess_attributes"]
    steps = []
    for st in pp.body:
        src = ast.unparse(st)
        if isinstance(st, ast.If) and "exponents.ndim != 2" in src:
            steps.append("ndim")
        elif isinstance(st, ast.If) and "len(exponents) != len(coefficients_)" in src:
            steps.append("len" + ("_if_coefficients" if "coefficients_ and" in src else ""))
        elif isinstance(st, ast.If) and "remove_redundant_coefficients" in src:
            cond = ast.unparse(st.test)
            steps.append("rm_coefs[" + cond + "]")
        elif isinstance(st, ast.If) and "Name length incompatible" in src:
            if "Duplicate indeterminant names" not in src:
                raise TranslatorError("duplicate-name check missing")
            steps.append("names_len")
            steps.append("dup_names")
        elif isinstance(st, ast.If) and "remove_redundant_names" in src:
            steps.append("rm_names[" + ast.unparse(st.test) + "]")
        elif isinstance(st, ast.If) and "Duplicate exponent keys" in src:
            steps.append("dup_rows")
    want = ["ndim", "len_if_coefficients", "rm_coefs[not retain_coefficients and coefficients_]", "names_len",
            "dup_names", "rm_names[not retain_names]", "dup_rows"]
    steps_ok = steps == want
    # retain flags default to the global options of the same name
    src = ast.unparse(pp)
    defaults_ok = ("retain_coefficients = numpoly.get_options()['retain_coefficients']" in src
                   and "retain_names = numpoly.get_options()['retain_names']" in src)
    # ---- align.py ------------------------------------------------------------------------------
    al = ast.parse(open(os.path.join(repo, "numpoly", "align.py")).read())
    af = _funcs(al)
    ai = ast.unparse(af["align_indeterminants"])
    ae = ast.unparse(af["align_exponents"])
    ash = ast.unparse(af["align_shape"])
    sort_numeric = "key=lambda x: int(x[length:] or '0')" in ai
    indet_retain = "retain_coefficients=True" in ai and "retain_names=True" in ai
    expon_retain = "retain_coefficients=True" in ae and "retain_names=True" in ae
    expon_unique = "numpy.unique(global_exponents, axis=0)" in ae
    shape_broadcast = "numpy.broadcast_shapes" in ash and "coeff * common" in ash
    return {"keep": keep, "fallback": fallback, "names_rule": names_rule, "steps_ok": steps_ok, "steps": steps,
            "defaults_ok": defaults_ok, "sort_numeric": sort_numeric, "indet_retain": indet_retain,
            "expon_retain": expon_retain, "expon_unique": expon_unique, "shape_broadcast": shape_broadcast}


def emit(info):
    b = lambda x: "true" if x else "false"  # noqa: E731
    return "\n".join([
        "(* GENERATED by harness/translators/clean_tr.py from construct/clean.py and align.py — do not edit *)",
        "From mathcomp Require Import all_ssreflect.",
        "Inductive kexp := KA | KB | KAnd of kexp & kexp | KOr of kexp & kexp | KNot of kexp.",
        "Fixpoint kexp_eval (k : kexp) (a b : bool) : bool :=",
        "  match k with KA => a | KB => b | KAnd x y => kexp_eval x a b && kexp_eval y a b",
        "  | KOr x y => kexp_eval x a b || kexp_eval y a b | KNot x => ~~ kexp_eval x a b end.",
        "(* keep a term iff ... over A := any(coefficient), B := any(exponent) *)",
        f"Definition gen_keep : kexp := {info['keep']}.",
        f"Definition gen_fallback_zero_constant : bool := {b(info['fallback'])}.",
        f"Definition gen_names_rule : bool := {b(info['names_rule'])}.",
        f"(* steps found: {', '.join(info['steps'])} *)",
        f"Definition gen_steps_in_order : bool := {b(info['steps_ok'])}.",
        f"Definition gen_retain_defaults_from_options : bool := {b(info['defaults_ok'])}.",
        f"Definition gen_name_sort_numeric : bool := {b(info['sort_numeric'])}.",
        f"Definition gen_align_indeterminants_retains : bool := {b(info['indet_retain'])}.",
        f"Definition gen_align_exponents_retains : bool := {b(info['expon_retain'])}.",
        f"Definition gen_align_exponents_unique_rows : bool := {b(info['expon_unique'])}.",
        f"Definition gen_align_shape_broadcasts : bool := {b(info['shape_broadcast'])}.",
    ]) + "\n"


def generate(repo, coq_dir):
    info = translate(repo)
    path = os.path.join(coq_dir, "Gen", "GenClean.v")
    text = emit(info)
    os.makedirs(os.path.dirname(path), exist_ok=True)
    if not os.path.exists(path) or open(path).read() != text:
        with open(path, "w") as fh:
            fh.write(text)
    return info


if __name__ == "__main__":
    import sys
    print(emit(translate(sys.argv[1])))
