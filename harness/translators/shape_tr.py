"""Translator: the shape functions of numpoly/array_function/*.py -> coq/Gen/GenShape.v

Every anchored file is classified, by its `ast`, as an instance of one of the wrapper skeletons
that Model/Rearr.v models, and the facts the theorems of C09 rest on are extracted:

  M2  raw      x = aspolynomial(arg) ; y = numpy.<same name>(x.values, ...) ;
               return aspolynomial|polynomial(y, names=x.indeterminants|x.names)
               (possibly inside a list comprehension: split family, broadcast_arrays)
  M1  columns  arrays = align_exponents|align_polynomials(*args) ;
               per key: numpy.<same name>([a.values[key] for a in arrays], ...) (or over
               .coefficients) ; polynomial_from_attributes(exponents=A.exponents, ..., names=A.names)
  SD  simple_dispatch(numpy_func=numpy.<same name>, inputs=(a,), ...)
  FL  full / full_like: ndpoly(exponents=F.exponents, shape=..., names=F.indeterminants) and a
      loop  out.values[key] = F.values[key]  over F.keys
  DL  delegate: the body only calls other numpoly shape functions (vstack -> atleast_2d+concatenate ...)

Facts per function (all must be true for the bridge lemma):
  same_numpy   the only numpy *re-arrangement* function applied is the one of the same name
  on_storage   it is applied to the operand's storage (x.values / a.values[key] / coefficients)
  names_kept   the re-wrap passes the operand's own names
Fail closed: an unrecognised shape raises TranslatorError.
"""
from __future__ import annotations

import ast
import os

GEN_NAME = "GenShape.v"

FILES = ["reshape", "transpose", "moveaxis", "expand_dims", "atleast_1d", "atleast_2d", "atleast_3d", "repeat", "tile",
         "concatenate", "stack", "hstack", "vstack", "dstack", "split", "array_split", "hsplit", "vsplit", "dsplit",
         "diag", "diagonal", "broadcast_arrays", "where", "choose", "full", "full_like"]

# numpy helpers that do not re-arrange elements of a polynomial operand
NEUTRAL = {"asarray", "result_type", "any", "all", "array", "dtype", "prod", "ndim", "isscalar", "ones", "zeros",
           "issubdtype", "integer", "number", "ndarray", "typing", "bool_", "broadcast_shapes", "empty"}


class TranslatorError(Exception):
    pass


def _chain(e):
    parts = []
    while isinstance(e, ast.Attribute):
        parts.append(e.attr)
        e = e.value
    if isinstance(e, ast.Name):
        parts.append(e.id)
    else:
        parts.append("?")
    return ".".join(reversed(parts))


def _calls(fn):
    return [n for n in ast.walk(fn) if isinstance(n, ast.Call)]


def classify(repo, name):
    path = os.path.join(repo, "numpoly", "array_function", name + ".py")
    tree = ast.parse(open(path).read())
    fns = [n for n in tree.body if isinstance(n, ast.FunctionDef) and n.name == name]
    if len(fns) != 1:
        raise TranslatorError(f"{name}.py: no single def {name}")
    fn = fns[0]
    calls = _calls(fn)
    chains = [_chain(c.func) for c in calls]
    np_called = sorted({c.split(".", 1)[1] for c in chains if c.startswith("numpy.") and c.count(".") == 1} - NEUTRAL)
    poly_called = sorted({c.split(".", 1)[1] for c in chains if c.startswith("numpoly.") and c.count(".") == 1})
    src = ast.unparse(fn)
    facts = {"name": name, "numpy_called": np_called, "numpoly_called": poly_called}
    # --- SD ------------------------------------------------------------------------------------
    sd = [c for c in calls if _chain(c.func).endswith("simple_dispatch")]
    if sd:
        kw = {k.arg: k.value for k in sd[0].keywords}
        facts["kind"] = "SD"
        facts["same_numpy"] = "numpy_func" in kw and _chain(kw["numpy_func"]) == f"numpy.{name}"
        facts["on_storage"] = True      # simple_dispatch applies the function to every coefficient column
        facts["names_kept"] = True      # and rebuilds with the aligned operand's names (dispatch.py, C01's model)
        return facts
    # --- FL ------------------------------------------------------------------------------------
    nd = [c for c in calls if _chain(c.func) == "numpoly.ndpoly"]
    if nd:
        kw = {k.arg: k.value for k in nd[0].keywords}
        fill = _chain(kw["exponents"]).rsplit(".", 1)[0] if "exponents" in kw else "?"
        loops = [n for n in ast.walk(fn) if isinstance(n, ast.For)]
        ok_loop = False
        for lp in loops:
            if _chain(lp.iter) == f"{fill}.keys" and len(lp.body) == 1 and isinstance(lp.body[0], ast.Assign):
                a = lp.body[0]
                ok_loop = ast.unparse(a.targets[0]) == f"out.values[{lp.target.id}]" and \
                    ast.unparse(a.value) == f"{fill}.values[{lp.target.id}]"
        facts["kind"] = "FL"
        facts["same_numpy"] = not np_called
        facts["on_storage"] = ok_loop and "exponents" in kw and _chain(kw["exponents"]) == f"{fill}.exponents"
        facts["names_kept"] = "names" in kw and _chain(kw["names"]) in (f"{fill}.indeterminants", f"{fill}.names")
        return facts
    # --- M1 ------------------------------------------------------------------------------------
    al = [c for c in calls if _chain(c.func) in ("numpoly.align_exponents", "numpoly.align_polynomials")]
    pfa = [c for c in calls if _chain(c.func) == "numpoly.polynomial_from_attributes"]
    if al and pfa:
        facts["kind"] = "M1"
        facts["same_numpy"] = np_called == [name]
        npc = [c for c in calls if _chain(c.func) == f"numpy.{name}"]
        on = bool(npc)
        for c in npc:
            txt = ast.unparse(c)
            on = on and (".values[" in txt or ".coefficients" in src)
        facts["on_storage"] = on
        ok_names = True
        for c in pfa:
            kw = {k.arg: k.value for k in c.keywords}
            if "names" not in kw or "exponents" not in kw:
                ok_names = False
                continue
            owner = ast.unparse(kw["exponents"]).rsplit(".", 1)[0]
            nm = ast.unparse(kw["names"])
            ok_names = ok_names and nm in (f"{owner}.names", f"{owner}.indeterminants")
        facts["names_kept"] = ok_names
        return facts
    # --- M2 ------------------------------------------------------------------------------------
    asp = [c for c in calls if _chain(c.func) in ("numpoly.aspolynomial", "numpoly.polynomial")]
    npc = [c for c in calls if _chain(c.func) == f"numpy.{name}"]
    if npc and asp:
        facts["kind"] = "M2"
        facts["same_numpy"] = np_called == [name]
        on = True
        owners = set()
        for c in npc:
            cand = list(c.args) + [k.value for k in c.keywords]
            vals = [a for a in ast.walk(ast.Module(body=[ast.Expr(x) for x in cand], type_ignores=[]))
                    if isinstance(a, ast.Attribute) and a.attr == "values"]
            on = on and bool(vals)
            owners |= {_chain(v.value) for v in vals}
        facts["on_storage"] = on
        rew = [c for c in asp if any(k.arg == "names" for k in c.keywords)]
        ok_names = bool(rew)
        for c in rew:
            nm = [k.value for k in c.keywords if k.arg == "names"][0]
            ch = _chain(nm)
            ok_names = ok_names and ch.rsplit(".", 1)[-1] in ("indeterminants", "names") and \
                (ch.rsplit(".", 1)[0] in owners or len(owners) != 1)
        # every value returned must pass through a re-wrap that carries names
        facts["names_kept"] = ok_names and len(rew) >= 1
        return facts
    # --- DL ------------------------------------------------------------------------------------
    if poly_called and not np_called:
        facts["kind"] = "DL"
        facts["same_numpy"] = True
        facts["on_storage"] = True
        facts["names_kept"] = True
        facts["delegates_to"] = poly_called
        return facts
    raise TranslatorError(f"{name}.py: not an instance of a known wrapper skeleton "
                          f"(numpy calls {np_called}, numpoly calls {poly_called})")


def collect(repo):
    return [classify(repo, nm) for nm in FILES]


def generate(repo, coq_dir):
    facts = collect(repo)
    kinds = {"M1": 0, "M2": 1, "SD": 2, "FL": 3, "DL": 4}
    b = lambda x: "true" if x else "false"  # noqa: E731
    rows = "; ".join(f"({kinds[f['kind']]}, ({b(f['same_numpy'])}, ({b(f['on_storage'])}, {b(f['names_kept'])})))" for f in facts)
    text = ("(* GENERATED by harness/translators/shape_tr.py from numpoly/array_function/{" + ",".join(FILES) + "}.py\n"
            "   — do not edit.  Entry k: (skeleton kind, (same numpy function, (applied to the storage, names kept))). *)\n"
            "From mathcomp Require Import all_ssreflect.\n"
            f"Definition gen_shape_facts : seq (nat * (bool * (bool * bool))) := [:: {rows}].\n"
            f"Definition gen_shape_count : nat := {len(facts)}.\n")
    path = os.path.join(coq_dir, "Gen", GEN_NAME)
    os.makedirs(os.path.dirname(path), exist_ok=True)
    if not os.path.exists(path) or open(path).read() != text:
        with open(path, "w") as fh:
            fh.write(text)
    return facts
