"""Translator: baseclass.py (__array_ufunc__/__array_function__ control flow, REDUCE/ACCUMULATE
mappings) + the live registries of the imported /repo + numpy's own list of overridable callables
-> coq/Gen/GenDispatch.v"""
from __future__ import annotations

import ast
import os


class TranslatorError(Exception):
    pass


def _chain(e):
    parts = []
    while isinstance(e, ast.Attribute):
        parts.append(e.attr)
        e = e.value
    if isinstance(e, ast.Name):
        parts.append(e.id)
    return ".".join(reversed(parts))


LIKE_ONLY = {"array", "asarray", "asanyarray", "ascontiguousarray", "asfortranarray", "arange", "empty", "zeros", "ones",
             "full", "eye", "identity", "frombuffer", "fromfile", "fromfunction", "fromiter", "fromstring", "loadtxt",
             "genfromtxt", "require", "tri"}


def universe():
    import numpy
    from numpy.testing.overrides import get_overridable_numpy_array_functions, get_overridable_numpy_ufuncs
    funcs = sorted(get_overridable_numpy_array_functions(), key=lambda f: (f.__module__, f.__name__))
    ufs = sorted(get_overridable_numpy_ufuncs(), key=lambda u: u.__name__)
    return funcs, ufs


def control_flow(repo):
    tree = ast.parse(open(os.path.join(repo, "numpoly", "baseclass.py")).read())
    cls = [n for n in tree.body if isinstance(n, ast.ClassDef) and n.name == "ndpoly"][0]
    fns = {n.name: n for n in cls.body if isinstance(n, ast.FunctionDef)}
    au = fns["__array_ufunc__"]
    src = ast.unparse(au)
    facts = {}
    # reduce / accumulate: blind subscript or guarded?
    for meth, table, key in (("reduce", "REDUCE_MAPPINGS", "reduce_guarded"), ("accumulate", "ACCUMULATE_MAPPINGS", "accumulate_guarded")):
        subs = [n for n in ast.walk(au) if isinstance(n, ast.Subscript) and isinstance(n.value, ast.Name) and n.value.id == table]
        guards = [n for n in ast.walk(au) if isinstance(n, ast.Compare) and isinstance(n.ops[0], ast.NotIn)
                  and isinstance(n.comparators[0], ast.Name) and n.comparators[0].id == table]
        gets = [n for n in ast.walk(au) if isinstance(n, ast.Call) and _chain(n.func) == f"{table}.get"]
        if not subs and not gets:
            raise TranslatorError(f"{table} is not consulted in __array_ufunc__")
        facts[key] = bool(guards) or bool(gets)
        if gets and "FeatureNotSupported" not in src:
            facts[key] = False
    facts["other_methods_rejected"] = "method != '__call__'" in src and "FeatureNotSupported" in src
    facts["ufunc_membership"] = "ufunc not in numpoly.UFUNC_COLLECTION" in src
    if "return numpoly.UFUNC_COLLECTION[ufunc](*inputs, **kwargs)" not in src:
        raise TranslatorError("__array_ufunc__ does not forward (*inputs, **kwargs) to the registered function")
    af = ast.unparse(fns["__array_function__"])
    facts["function_membership"] = "func not in numpoly.FUNCTION_COLLECTION" in af and "FeatureNotSupported" in af
    if "return numpoly.FUNCTION_COLLECTION[func](*args, **kwargs)" not in af:
        raise TranslatorError("__array_function__ does not forward (*args, **kwargs)")
    return facts


def translate(repo):
    import numpoly
    from numpoly import baseclass
    facts = control_flow(repo)
    funcs, ufs = universe()
    callables = list(funcs) + [u for u in ufs]
    ident = {}
    for i, c in enumerate(callables):
        ident[c] = i
    # registered callables that numpy does not list (private helpers) are appended
    for c in list(numpoly.FUNCTION_COLLECTION) + list(numpoly.UFUNC_COLLECTION) + list(baseclass.REDUCE_MAPPINGS) \
            + list(baseclass.REDUCE_MAPPINGS.values()) + list(baseclass.ACCUMULATE_MAPPINGS) + list(baseclass.ACCUMULATE_MAPPINGS.values()):
        if c not in ident:
            ident[c] = len(callables)
            callables.append(c)
    targets = []
    tid = {}

    def target(fn):
        if fn not in tid:
            tid[fn] = len(targets)
            targets.append(fn)
        return tid[fn]
    functions = [(ident[k], target(v)) for k, v in numpoly.FUNCTION_COLLECTION.items()]
    ufuncs = [(ident[k], target(v)) for k, v in numpoly.UFUNC_COLLECTION.items()]
    reduce_ = [(ident[k], ident[v]) for k, v in baseclass.REDUCE_MAPPINGS.items()]
    accum = [(ident[k], ident[v]) for k, v in baseclass.ACCUMULATE_MAPPINGS.items()]
    # numpoly.<same name> for every registered numpy callable
    same = []
    for c, i in ident.items():
        nm = getattr(c, "__name__", None)
        if nm and hasattr(numpoly, nm) and getattr(numpoly, nm) in tid:
            same.append((i, tid[getattr(numpoly, nm)]))
    like_only = [ident[f] for f in funcs if f.__name__ in LIKE_ONLY and f.__module__ == "numpy"]
    return {"facts": facts, "callables": callables, "n_functions": len(funcs), "n_ufuncs": len(ufs), "functions": functions,
            "ufuncs": ufuncs, "reduce": reduce_, "accumulate": accum, "same": same, "like_only": like_only,
            "ident": ident, "targets": targets, "universe_functions": [ident[f] for f in funcs],
            "universe_ufuncs": [ident[u] for u in ufs]}


def _pairs(ps):
    return "[:: " + "; ".join(f"({a}, {b})" for a, b in ps) + "]" if ps else "[::]"


def _nats(xs):
    return "[:: " + "; ".join(str(x) for x in xs) + "]" if xs else "[::]"


def emit(info):
    b = lambda x: "true" if x else "false"  # noqa: E731
    f = info["facts"]
    return "\n".join([
        "(* GENERATED by harness/translators/dispatch_tr.py from baseclass.py, the live registries and numpy's list of",
        "   overridable callables — do not edit.  Callable i of the universe: see evidence (names are not needed in Coq). *)",
        "From mathcomp Require Import all_ssreflect.",
        "From NP Require Import Dispatch.",
        f"Definition gen_dcode : dcode := DCode {b(f['reduce_guarded'])} {b(f['accumulate_guarded'])} "
        f"{b(f['other_methods_rejected'])} {b(f['ufunc_membership'])} {b(f['function_membership'])}.",
        f"Definition gen_functions : seq (nat * nat) := {_pairs(info['functions'])}.",
        f"Definition gen_ufuncs : seq (nat * nat) := {_pairs(info['ufuncs'])}.",
        f"Definition gen_reduce : seq (nat * nat) := {_pairs(info['reduce'])}.",
        f"Definition gen_accumulate : seq (nat * nat) := {_pairs(info['accumulate'])}.",
        f"Definition gen_same_name : seq (nat * nat) := {_pairs(info['same'])}.",
        f"Definition gen_universe_functions : seq nat := {_nats(info['universe_functions'])}.",
        f"Definition gen_universe_ufuncs : seq nat := {_nats(info['universe_ufuncs'])}.",
    ]) + "\n"


def generate(repo, coq_dir):
    info = translate(repo)
    path = os.path.join(coq_dir, "Gen", "GenDispatch.v")
    text = emit(info)
    os.makedirs(os.path.dirname(path), exist_ok=True)
    if not os.path.exists(path) or open(path).read() != text:
        with open(path, "w") as fh:
            fh.write(text)
    return info
