"""Regenerate the table of DESIGN.md section 10.4 from /verif/seeded/*/meta.json (rows truncated for readability)."""
import glob
import json
import os
import re

ROOT = os.path.dirname(os.path.dirname(os.path.abspath(__file__)))


def cell(x, n):
    x = " ".join(str(x).split()).replace("|", "/")
    return x[:n]


def rows():
    out = []
    for d in sorted(glob.glob(os.path.join(ROOT, "seeded", "*"))):
        mp = os.path.join(d, "meta.json")
        if not os.path.exists(mp):
            continue
        m = json.load(open(mp))
        det = m.get("detected_by")
        det = ", ".join(det) if isinstance(det, list) else str(det)
        first = m.get("how") or ""
        if not first:
            res = m.get("check_results", "")
            hs = [ln for ln in res.splitlines() if ln.startswith("#")]
            first = hs[0][2:] if hs else res
        out.append(f"| {os.path.basename(d)} | {m.get('property')} | {cell(m.get('summary'), 230)} | {cell(m.get('needs'), 150)} | {det} | {cell(first, 260)} |")
    return out


def main():
    p = os.path.join(ROOT, "DESIGN.md")
    s = open(p).read()
    head = "| id | seeded for | change | needs | caught by | first report |"
    i = s.index(head)
    j = s.index("\n\n", i)
    sep = "|---|---|---|---|---|---|"
    s = s[:i] + head + "\n" + sep + "\n" + "\n".join(rows()) + s[j:]
    open(p, "w").write(s)
    print(len(rows()), "rows")


if __name__ == "__main__":
    main()
