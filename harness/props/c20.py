"""C20 — monomials are never confused, whatever the exponent size."""
from __future__ import annotations

import io
import json
import os
import pickle

import numpy
import numpoly

from harness import core
from harness.translators import key_tr

HEADER = """From Coq Require Import NArith ZArith List Bool.
From NP Require Import Key GenKey.
Import ListNotations.
Open Scope N_scope.
Definition off := gen_offset.
(* codec: implementation key code point / decoded exponent / acceptance vs the model *)
Definition codec_ok (sur : bool) (e cp dec : N) (accepted : bool) : bool :=
  if accepted then (representable sur off e) && (encode off e =? cp) && (decode off cp =? dec) && (dec =? e)
  else negb (representable sur off e).
Definition lib_fast (p q : rpoly) : list N -> list N -> bool :=
  if gen_guard_kind =? 1 then max_guard off gen_guard_bound p q else (fun _ _ => true).
Fixpoint rp_eqb (a b : rpoly) : bool :=
  match a, b with
  | [], [] => true
  | (r, c) :: a', (r', c') :: b' => list_eqb r r' && Z.eqb c c' && rp_eqb a' b'
  | _, _ => false
  end.
(* product: Some result rows in storage order of the model's key store, or None for an error *)
Definition mul_ok (p q : rpoly) (impl : option rpoly) : bool :=
  match option_map (load off) (kmul off (lib_fast p q) p q), impl with
  | Some m, Some i => rp_eqb (rsort m) (rsort i)
  | None, None => true
  | _, _ => false
  end.
"""
TARGETS = ["Bridge/BridgeKey.vo", "Gen/GenSource.vo", "Bridge/BridgeSrcC20.vo", "Props/P_C20.vo"]


def cN(v):
    return str(int(v))


def cZ(v):
    v = int(v)
    return f"({v})%Z" if v < 0 else f"{v}%Z"


def rpoly_coq(terms):
    return "[" + "; ".join("([" + "; ".join(cN(e) for e in r) + "], " + cZ(c) + ")" for r, c in terms) + "]"


def mono(exps, c=1, names=None):
    names = names or tuple(f"q{i}" for i in range(len(exps)))
    return numpoly.polynomial_from_attributes([list(exps)], [c], names=names)


def terms_of(p):
    """{exponent tuple: int coeff} for a 0-d polynomial, zero coefficients dropped."""
    out = {}
    for r, c in zip(p.exponents.tolist(), p.coefficients):
        v = core.exact_int(numpy.asarray(c).item())
        if v != 0:
            out[tuple(int(e) for e in r)] = out.get(tuple(int(e) for e in r), 0) + v
    return out


def numpy_takes_surrogates():
    """Environment fact, measured on numpy alone: may a structured field be named by a lone UTF-16 surrogate?"""
    try:
        dt = numpy.dtype([(chr(0xD800), "i8"), (chr(0xDFFF), "i8")])
        a = numpy.zeros(2, dtype=dt)
        a[chr(0xD800)] = 3
        names = numpy.array(dt.names).view(numpy.uint32).tolist()
        return names == [0xD800, 0xDFFF] and int(a[chr(0xD800)][0]) == 3
    except Exception:  # noqa: BLE001
        return False


def codec_probe(e, off):
    """Build the monomial q0**e, read the key and the exponent back three ways."""
    try:
        p = numpoly.polynomial_from_attributes([[e]], [7], names=("q0",))
        cp = ord(p.keys[0])
        dec = int(p.exponents[0][0])
        back = numpoly.polynomial(numpy.asarray(p.values), names=p.names)
        dec2 = int(back.exponents[0][0])
        if dec2 != dec:
            return ("mismatch", cp, dec, dec2)
        return ("ok", cp, dec, dec2)
    except Exception as exc:  # noqa: BLE001
        return ("err", type(exc).__name__, 0, 0)


# ---- reference arithmetic on sparse dicts (harness-side oracle for the multi-operation stream) --
def ref_mul(a, b):
    out = {}
    for r1, c1 in a.items():
        for r2, c2 in b.items():
            k = tuple(x + y for x, y in zip(r1, r2))
            out[k] = out.get(k, 0) + c1 * c2
    return {k: v for k, v in out.items() if v}


def ref_add(a, b):
    out = dict(a)
    for k, v in b.items():
        out[k] = out.get(k, 0) + v
    return {k: v for k, v in out.items() if v}


def ref_deriv(a, idx):
    out = {}
    for r, c in a.items():
        if r[idx]:
            k = r[:idx] + (r[idx] - 1,) + r[idx + 1:]
            out[k] = out.get(k, 0) + c * r[idx]
    return out


def ref_eval(a, vals):
    return sum(c * int(numpy.prod([int(v) ** e for v, e in zip(vals, r)], dtype=object)) for r, c in a.items())


def rand_big_poly(rng, D, nterms, top):
    while True:
        try:
            return _rand_big_poly(rng, D, nterms, top)
        except ValueError:      # an exponent in the surrogate range: rejected with an error, which C20 allows
            continue


def _rand_big_poly(rng, D, nterms, top):
    rows = set()
    while len(rows) < nterms:
        rows.add(tuple(rng.choice([0, 1, rng.randint(2, 60), rng.randint(61, 300), rng.randint(300, top)])
                       for _ in range(D)))
    rows = sorted(rows)
    cols = [rng.choice([-3, -2, -1, 1, 2, 3]) for _ in rows]
    names = tuple(f"q{i}" for i in range(D))
    return numpoly.polynomial_from_attributes([list(r) for r in rows], cols, names=names,
                                              retain_names=True), dict(zip(rows, cols))


def run(report, tier, seed):
    tr_ok, info = True, None
    try:
        info = key_tr.generate(core.REPO, core.COQ)
    except (key_tr.TranslatorError, SyntaxError, OSError) as exc:
        tr_ok = False
        report.notes.append(f"translator failed: {exc}")
    from harness.translators import source_tr
    ok = tr_ok and core.prove_tied(report, TARGETS, [source_tr])
    off = info["offset"] if info else int(numpoly.ndpoly.KEY_OFFSET)
    rng = core.rng_for(seed, "C20")
    cc = core.CoqCases("C20", HEADER, shard=400)
    viol = []

    # (a) codec: every exponent 0..60000 on the implementation, relationally; a sample through Coq
    top = 60000
    extra = sorted({rng.randrange(60000, 1_200_000) for _ in range(300 if tier == "quick" else 3000)}
                   | {55236, 55237, 57284, 57285, 65535 - off, 65536, 1114111 - off, 1114112 - off, 1114112, 1200000})
    sample = set(rng.sample(range(top + 1), 1200 if tier == "quick" else 6000)) | {0, 1, 68, 69, 196, 197, 255, 256, 54999, 55000}
    n_codec = 0
    sur = numpy_takes_surrogates()
    csur = "true" if sur else "false"
    report.coverage["numpy_accepts_surrogate_field_names"] = sur
    for e in list(range(top + 1)) + extra:
        st, cp, dec, dec2 = codec_probe(e, off)
        n_codec += 1
        rep_ok = (e + off < 2 ** 32) and (0 < e + off) and (e + off < 0xD800 or 0xE000 <= e + off <= 0x10FFFF
                                                             or (sur and e + off <= 0x10FFFF))
        if st == "ok":
            if not (cp == e + off and dec == e):
                viol.append((f"exponent {e}: stored key code point {cp}, decoded exponent {dec} (a different monomial)",
                             {"kind": "codec", "exponent": e, "key_codepoint": cp, "decoded": dec}))
        elif st == "mismatch":
            viol.append((f"exponent {e}: raw structured view decodes to {dec2}, attribute to {dec}",
                         {"kind": "codec-view", "exponent": e}))
        else:
            if e < 55000:
                viol.append((f"exponent {e} below 55000 rejected with {cp}", {"kind": "codec-reject", "exponent": e}))
        if e in sample or e in extra:
            if st == "ok":
                cc.add(f"codec_ok {csur} {cN(e)} {cN(cp)} {cN(dec)} true", {"kind": "codec", "e": e, "impl": [st, cp, dec]})
            elif st == "err":
                cc.add(f"codec_ok {csur} {cN(e)} 0 0 false", {"kind": "codec", "e": e, "impl": [st, cp]})
    report.sample({"codec": "exponent 54999", "impl": codec_probe(54999, off)})

    # (b) products (c*q0**a)*(d*q0**b), all pairs with a+b <= bound
    bound = 160 if tier == "quick" else 600
    n_pairs = 0
    pair_sample = []
    for a in range(bound + 1):
        for b in range(bound + 1 - a):
            n_pairs += 1
            c, d = 3, -2
            try:
                res = terms_of(mono([a], c) * mono([b], d))
                got = ("ok", res)
            except Exception as exc:  # noqa: BLE001
                got = ("err", type(exc).__name__)
            want = {(a + b,): c * d}
            if got != ("ok", want):
                viol.append((f"({c}*q0**{a})*({d}*q0**{b}) gives {got[1]} instead of {c*d}*q0**{a+b}",
                             {"kind": "product", "a": a, "b": b, "c": c, "d": d, "impl": str(got)}))
            if (a + b) in (0, 1, 68, 69, 70, 127, 128, 196, 197, 198, 255, 256, 257, bound) or rng.random() < (0.02 if tier == "quick" else 0.004):
                pair_sample.append((a, b, got))
    for a, b, got in pair_sample:
        impl = "None" if got[0] == "err" else "(Some " + rpoly_coq(sorted(got[1].items())) + ")"
        cc.add(f"mul_ok {rpoly_coq([((a,), 3)])} {rpoly_coq([((b,), -2)])} {impl}",
               {"kind": "product", "a": a, "b": b, "impl": str(got)})
    report.sample({"product": "(3*q0**100)*(-2*q0**100)", "impl": str(terms_of(mono([100], 3) * mono([100], -2))) if not viol else "see violations"})

    # (c) random big tuples through alignment/add, multiply, power, derivative, evaluation, pickle, savetxt/loadtxt
    n_multi = 300 if tier == "quick" else 4000
    stats = {"add": 0, "mul": 0, "pow": 0, "deriv": 0, "call": 0, "pickle": 0, "text": 0, "text_errors": 0}
    tmpdir = os.path.join("/tmp", f"verif_c20_{os.getpid()}")
    os.makedirs(tmpdir, exist_ok=True)
    try:
        for k in range(n_multi):
            D = rng.randint(1, 3)
            p, tp = rand_big_poly(rng, D, rng.randint(1, 3), 100000)
            q, tq = rand_big_poly(rng, D, rng.randint(1, 3), 100000)
            op = rng.choice(["add", "mul", "pow", "deriv", "call", "pickle", "text"])
            stats[op] += 1
            try:
                if op == "add":
                    got, want = terms_of(p + q), ref_add(tp, tq)
                elif op == "mul":
                    got, want = terms_of(p * q), ref_mul(tp, tq)
                    cc.add(f"mul_ok {rpoly_coq(sorted(tp.items()))} {rpoly_coq(sorted(tq.items()))} "
                           f"(Some {rpoly_coq(sorted(got.items()))})", {"kind": "bigmul", "p": str(tp), "q": str(tq)})
                elif op == "pow":
                    got, want = terms_of(p ** 2), ref_mul(tp, tp)
                elif op == "deriv":
                    idx = rng.randrange(D)
                    got, want = terms_of(numpoly.derivative(p, f"q{idx}")), ref_deriv(tp, idx)
                elif op == "call":
                    vals = [rng.choice([0, 1, -1]) for _ in range(D)]
                    got, want = int(p(*vals)), ref_eval(tp, vals)
                elif op == "pickle":
                    got, want = terms_of(pickle.loads(pickle.dumps(p, protocol=rng.randint(0, 5)))), tp
                else:
                    path = os.path.join(tmpdir, "p.txt")
                    arr = numpoly.polynomial([p, q])
                    want = [terms_of(x) for x in arr]
                    try:
                        numpoly.savetxt(path, arr, fmt="%d")
                        back = numpoly.loadtxt(path, dtype=int)
                        got = [terms_of(x) for x in back]
                    except Exception:  # noqa: BLE001 - an error is allowed for text files
                        stats["text_errors"] += 1
                        continue
            except Exception as exc:  # noqa: BLE001
                viol.append((f"{op} on exponents up to 1e5 raised {type(exc).__name__}: {exc}",
                             {"kind": "multi", "op": op, "p": str(tp), "q": str(tq)}))
                continue
            if got != want:
                viol.append((f"{op} confused monomials: got {got}, expected {want}",
                             {"kind": "multi", "op": op, "p": str(tp), "q": str(tq), "got": str(got), "want": str(want)}))
    finally:
        for fn in os.listdir(tmpdir):
            os.remove(os.path.join(tmpdir, fn))
        os.rmdir(tmpdir)

    # (d) wrap-around grids: every exponent tuple over {0, 1, 2, m-2, m-1, m} with m**D just above 2**32 (D = 2, 3), all
    #     in ONE polynomial, through alignment (add / subtract / align_polynomials): any encoding of an exponent row as a
    #     single 32-bit number with radix max+1 (or a power of two nearby) makes two of these rows collide
    import itertools
    n_grid = 0
    for D, m in ((2, 65536), (2, 65537), (2, 70000), (3, 1625), (3, 1626), (3, 2048)):
        edge = [0, 1, 2, m - 2, m - 1, m]
        rows = [t for t in itertools.product(edge, repeat=D)]
        if D == 3:
            rows = rng.sample(rows, 90) + [(0, 0, 0), (m, m, m)]
            rows = list(dict.fromkeys(rows))
        coefs = [rng.choice([1, 2, 3, 5, 7]) for _ in rows]
        tp = dict(zip(rows, coefs))
        names = tuple(f"q{i}" for i in range(D))
        n_grid += 1
        try:
            p = numpoly.polynomial_from_attributes([list(r) for r in rows], coefs, names)
            for label, got, want in (
                    ("p + 1", lambda: terms_of(p + 1), ref_add(tp, {(0,) * D: 1})),
                    ("1 + p (numpy.add)", lambda: terms_of(numpy.add(1, p)), ref_add(tp, {(0,) * D: 1})),
                    ("p - q0", lambda: terms_of(p - numpoly.symbols("q0")), ref_add(tp, {(1,) + (0,) * (D - 1): -1})),
                    ("align_polynomials(p, 1)[0]", lambda: terms_of(numpoly.align_polynomials(p, 1)[0]), tp),
                    ("p + p", lambda: terms_of(p + p), {k: 2 * v for k, v in tp.items()})):
                g = got()
                if g != want:
                    lost = sorted(set(want) - set(g))[:3]
                    viol.append((f"{label} on the {D}-variable wrap-around grid with m={m} confused monomials: "
                                 f"{len(g)} terms instead of {len(want)}, e.g. lost or changed {lost}",
                                 {"kind": "grid", "D": D, "m": m, "op": label, "rows": len(rows)}))
                    break
        except Exception as exc:  # noqa: BLE001
            viol.append((f"alignment on the {D}-variable wrap-around grid with m={m} raised {type(exc).__name__}: {exc}",
                         {"kind": "grid", "D": D, "m": m}))
    report.coverage["wrap_around_grids"] = n_grid

    failed, errors = cc.run() if tr_ok else ([], [])
    report.coverage.update({
        "evaluations": n_codec + n_pairs + n_multi,
        "distinct_nontrivial": n_codec + n_pairs,
        "exhaustive": True,
        "rule": f"(a) every exponent 0..60000 plus boundary/sampled values up to 1.2e6 through construct -> key -> "
                f"exponents -> raw view -> polynomial; (b) all pairs (a,b) with a+b<={bound} through (c*q0^a)*(d*q0^b); "
                f"(c) {n_multi} random 1-3 variable polynomials with exponents up to 1e5 through add/mul/pow/derivative/"
                "call/pickle/savetxt+loadtxt against exact integer arithmetic; distinct by construction (distinct exponent values / pairs)",
        "stream_c": stats, "coq_cases": len(cc.cases), "translator": "ok" if tr_ok else "failed",
        "key_facts": info,
        "traces_validated_against_impl": len(cc.cases),
    })
    seen_kinds = set()
    for what, rep in viol:
        kind = rep["kind"] + ":" + str(rep.get("op", ""))
        if kind in seen_kinds:
            continue
        seen_kinds.add(kind)
        report.violation("C20: " + what, rep)
    if not viol:
        for k, path, log in errors:
            report.violation(f"correspondence shard did not evaluate: {log[-300:]}", {"kind": "shard-error", "log": log}, found_input=False)
        for idx in failed[:3]:
            term, meta = cc.cases[idx]
            report.violation(f"model and implementation disagree: {meta}", {"kind": "correspondence", "term": term[:500], **meta})
        if not ok and not report.violations:
            report.violation("C20: bridge/proof obligation no longer checks: "
                             + str(report.coverage.get("broken_obligation", {}).get("where") or report.notes),
                             {"kind": "broken-proof", "theorem": "Bridge/BridgeKey.v", **report.coverage.get("broken_obligation", {})},
                             found_input=False)
    report.coverage["trusted_base"] = ["Coq 8.16.1 kernel + VM", "Coq stdlib (NArith, ZArith, Lia)",
                                       "translator harness/translators/key_tr.py", "harness oracle arithmetic for stream (c)"]
    report.assumptions += ["numpy's acceptance of a code point as structured field name is modelled by valid_cp; whether lone surrogates are accepted is measured on numpy itself (numpy_takes_surrogates) and passed to the model (validated on every value of (a))",
                           "the compiled kernel's UTF-8 decode is modelled only for bytes < 128 (everything else: error or merge, reported as None)"]


def replay(path):
    data = json.load(open(path))
    rep = data["replay"]
    print(json.dumps(rep, indent=1)[:2000])
    if rep.get("kind") == "product":
        a, b, c, d = rep["a"], rep["b"], rep["c"], rep["d"]
        try:
            print("implementation now:", mono([a], c) * mono([b], d))
        except Exception as exc:  # noqa: BLE001
            print("implementation now raises:", type(exc).__name__, exc)
    return 0
