"""C03 — returned polynomials are well-formed and regenerate from their attributes."""
from __future__ import annotations

import json

import numpy
import numpoly

from harness import core, gen
from harness.translators import clean_tr
from harness.props.c04 import lay_coq

HEADER = """From Coq Require Import ZArith.
From mathcomp Require Import all_ssreflect all_algebra ssrZ.
From NP Require Import Base Poly Harness.
Delimit Scope Z_scope with CZ.
Local Notation P := ZParr.
"""
TARGETS = ["Bridge/BridgeClean.vo", "Props/P_C03.vo"]


def wf_facts(p):
    """The well-formedness facts C03 states, evaluated on an implementation object.  Returns a
    list of violated facts."""
    bad = []
    rows = [tuple(int(e) for e in r) for r in p.exponents.tolist()]
    coeffs = p.coefficients
    if len(set(rows)) != len(rows):
        bad.append(f"duplicate exponent rows {rows}")
    if p.size and len(coeffs) != len(rows):
        bad.append(f"{len(coeffs)} coefficient arrays for {len(rows)} rows")
    for c in coeffs:
        c = numpy.asarray(c)
        if c.shape != p.shape or c.dtype != p.dtype:
            bad.append(f"coefficient of shape {c.shape}/{c.dtype} in an array of shape {p.shape}/{p.dtype}")
            break
    if not p.names or len(set(p.names)) != len(p.names):
        bad.append(f"names {p.names}")
    if any(len(r) != len(p.names) for r in rows):
        bad.append("exponent width differs from the number of names")
    # the raw structured view decodes to the same exponents
    keys = list(p.values.dtype.names or ())
    dec = [tuple(ord(ch) - p.KEY_OFFSET for ch in k) for k in keys[:len(rows)]]
    if dec != rows:
        bad.append(f"field names decode to {dec}, exponents are {rows}")
    return bad


def same(a, b):
    return not differs(a, b)


def differs(a, b):
    """'' if equal, else which observable differs (shape / dtype / names / values)"""
    if tuple(a.shape) != tuple(b.shape):
        return f"shape {tuple(a.shape)} vs {tuple(b.shape)}"
    if a.dtype != b.dtype:
        return f"dtype {a.dtype} vs {b.dtype}"
    if a.names != b.names:
        return f"names {a.names} vs {b.names}"
    if core.canon_elements(a) != core.canon_elements(b):
        return "values"
    return ""


def rebuild_facts(p):
    bad = []
    try:
        q = numpoly.polynomial_from_attributes(p.exponents, p.coefficients, p.names)
        if not same(p, q):
            bad.append("rebuild from (exponents, coefficients, names) differs")
        q = numpoly.polynomial(numpy.asarray(p.values), names=p.names)
        if not same(p, q):
            bad.append("rebuild from the raw structured view differs: " + differs(p, q)
                       + f" | p: exps={p.exponents.tolist()} coefs={[numpy.asarray(c).tolist() for c in p.coefficients]} keys={p.keys.tolist() if hasattr(p.keys, 'tolist') else p.keys}"
                       + f" flags={p.flags['C_CONTIGUOUS']},{p.flags['F_CONTIGUOUS']} strides={p.strides}"
                       + f" | q: exps={q.exponents.tolist()} coefs={[numpy.asarray(c).tolist() for c in q.coefficients]}")
        if p.size:
            q = numpoly.polynomial(p.todict(), names=p.names)
            if not (core.canon_elements(p) == core.canon_elements(q) and tuple(q.shape) == tuple(p.shape) and q.names == p.names):
                bad.append("rebuild from todict() differs")
            elif q.dtype != p.dtype:
                bad.append(f"rebuild from todict() differs: dtype {p.dtype} vs {q.dtype}")
    except Exception as exc:  # noqa: BLE001
        bad.append(f"rebuild raised {type(exc).__name__}: {exc}")
    return bad


OPS = [
    ("add", lambda r, a, b: a + b), ("sub", lambda r, a, b: a - b), ("mul", lambda r, a, b: a * b),
    ("neg", lambda r, a, b: -a), ("pow", lambda r, a, b: a ** r.choice([0, 1, 2])),
    ("index", lambda r, a, b: a[tuple(r.randrange(d) for d in a.shape[:r.randint(0, a.ndim)])]),
    ("sum", lambda r, a, b: numpoly.sum(a, axis=None if not a.ndim else r.choice([None, 0]))),
    ("derivative", lambda r, a, b: numpoly.derivative(a, r.choice(a.names))),
    ("call_partial", lambda r, a, b: a(**{a.names[0]: b})),
    ("align", lambda r, a, b: numpoly.align_polynomials(a, b)[r.randrange(2)]),
    ("concatenate", lambda r, a, b: numpoly.concatenate([numpoly.atleast_1d(a).ravel(), numpoly.atleast_1d(b).ravel()])),
    ("transpose", lambda r, a, b: a.T), ("copy", lambda r, a, b: a.copy()),
    ("where", lambda r, a, b: numpoly.where(numpy.ones(numpy.broadcast_shapes(a.shape, b.shape), dtype=bool), a, b)),
    ("maximum", lambda r, a, b: numpoly.maximum(a, b)),
    ("set_dimensions", lambda r, a, b: numpoly.set_dimensions(a, len(a.names) + 1)),
    ("astype", lambda r, a, b: a.astype(float)),
    ("monomial", lambda r, a, b: rand_monomial(r)),
    ("variable", lambda r, a, b: numpoly.variable(r.randint(1, 4))),
]


def rand_monomial(r):
    """monomial() with scalar or per-dimension bounds, with and without an explicit dimension count / names."""
    form = r.randrange(6)
    if form == 0:
        return numpoly.monomial([r.randint(1, 3) for _ in range(r.randint(2, 3))])
    if form == 1:
        return numpoly.monomial(r.randint(0, 2), [r.randint(2, 4) for _ in range(r.randint(2, 3))], graded=r.random() < 0.5)
    if form == 2:
        return numpoly.monomial([r.randint(1, 3) for _ in range(3)], dimensions=r.choice([1, 2, 3, None]))
    if form == 3:
        return numpoly.monomial(0, [r.randint(1, 3), r.randint(1, 3)], dimensions=r.choice([None, 2, ("q1", "q3")]))
    if form == 4:
        return numpoly.monomial(r.randint(0, 1), r.randint(2, 4), dimensions=r.choice([1, 2, 3]),
                                cross_truncation=r.choice([1.0, 2.0, numpy.inf]), reverse=r.random() < 0.5)
    return numpoly.monomial(r.randint(2, 4), dimensions=r.choice([("q2",), ("q0", "q10"), 2]))


def run(report, tier, seed):
    tr_ok, info = True, None
    try:
        info = clean_tr.generate(core.REPO, core.COQ)
    except (clean_tr.TranslatorError, SyntaxError, OSError, KeyError) as exc:
        tr_ok = False
        report.notes.append(f"translator failed: {exc}")
    ok = tr_ok and core.prove(report, TARGETS)
    rng = core.rng_for(seed, "C03")
    cc = core.CoqCases("C03", HEADER, shard=250)
    viol = []
    n_ops = 600 if tier == "quick" else 12000
    n_attr = 600 if tier == "quick" else 12000
    stats = {}
    nontrivial = set()
    # ---- (1) results of public operations ---------------------------------------------------
    for k in range(n_ops):
        a, b = gen.rand_operand_pair(rng)
        if not isinstance(a, numpoly.ndpoly):
            a, b = b, a
        if not isinstance(a, numpoly.ndpoly):
            continue
        if rng.random() < 0.2:
            # coefficient dtypes numpy would not choose for a builtin number (values are small: no wrap-around)
            d = rng.choice(["int8", "int16", "int32", "uint32", "float32", "uint8"])
            if not (d.startswith("u") and any(numpy.any(numpy.asarray(c) < 0) for c in a.coefficients)):
                a = a.astype(d)
        name, fn = rng.choice(OPS)
        try:
            res = fn(rng, a, b)
        except Exception:  # noqa: BLE001  (errors are other properties' subject)
            stats[name + ":raised"] = stats.get(name + ":raised", 0) + 1
            continue
        if not isinstance(res, numpoly.ndpoly):
            continue
        stats[name] = stats.get(name, 0) + 1
        try:
            bad = wf_facts(res)
        except Exception as exc:  # noqa: BLE001   the object is too malformed to be taken apart
            bad = [f"reading the result's attributes raised {type(exc).__name__}: {exc}"]
        if not bad:
            bad = rebuild_facts(res)

        def safe(x):
            try:
                return gen.describe(x)
            except Exception:  # noqa: BLE001   a malformed polynomial may not even print
                return f"<{type(x).__name__} shape={getattr(x, 'shape', '?')} names={getattr(x, 'names', '?')} keys={list(getattr(x, 'keys', []))[:6]}>"
        if bad:
            kind = "wf:" + name + (":empty-grid" if name == "monomial" and getattr(res, "size", 1) == 0 else "")
            viol.append((kind, f"result of {name} on {safe(a)}, {safe(b)} is not well-formed: {bad[0]}"
                                       + (f" (result: {safe(res)})" if name in ("monomial", "variable") else ""),
                         {"op": name, "a": safe(a), "b": safe(b), "facts": bad}))
        else:
            report.sample({"op": name, "result": safe(res)[:200]}, cap=3)
    # ---- (2) attribute triples through the constructor vs the model ----------------------------
    for k in range(n_attr):
        D = rng.randint(1, 3)
        N = rng.randint(1, 5)
        shape = gen.rand_shape(rng, 2)
        size = int(numpy.prod(shape)) if shape else 1
        rows = [[rng.choice([0, 0, 1, 2]) for _ in range(D)] for _ in range(N)]
        if rng.random() < 0.15 and N > 1:
            rows[-1] = list(rows[0])             # duplicate row
        names = rng.sample([0, 1, 2, 3, 10], D)
        if rng.random() < 0.5:
            names = sorted(names)
        if rng.random() < 0.07 and D > 1:
            names[-1] = names[0]               # duplicate name
        if rng.random() < 0.25:                 # an unused indeterminate
            for r in rows:
                r[rng.randrange(D) if D == 1 else D - 1] = 0
        cols = []
        for _ in range(N):
            cols.append([0] * size if rng.random() < 0.3 else [rng.choice([-1, 0, 0, 1, 2]) for _ in range(size)])
        if rng.random() < 0.05:
            cols = cols[:-1] or cols             # length mismatch
        # explicit flags (None: take the global option) under a random global setting
        g_rc, g_rn = rng.random() < 0.3, rng.random() < 0.7
        e_rc, e_rn = rng.choice([None, False, True]), rng.choice([None, False, True])
        rc = g_rc if e_rc is None else e_rc
        rn = g_rn if e_rn is None else e_rn
        tnames = tuple(f"q{v}" for v in names)
        arrs = [numpy.array(c, dtype=numpy.int64).reshape(shape) for c in cols]
        try:
            with numpoly.global_options(retain_coefficients=g_rc, retain_names=g_rn):
                # an explicit allocation (any number >= the number of rows) must not change anything (D36)
                akw = {"allocation": rng.choice([N, N + 1, 2 * N - 1, 2 * N, 2 * N + 3])} if rng.random() < 0.35 else {}
                if rng.random() < 0.3:
                    # an explicit coefficient dtype beside the ones the compiled copy kernel knows (the values fit)
                    akw["dtype"] = rng.choice(["float32", "int32", "int16", "complex64", "float16"]
                                              + ([] if any(v < 0 for c in cols for v in c) else ["uint8", "uint16"]))
                p = numpoly.polynomial_from_attributes(rows, arrs, tnames, retain_coefficients=e_rc, retain_names=e_rn, **akw)
                if "dtype" in akw and p.dtype != numpy.dtype(akw["dtype"]):
                    viol.append(("dtype:from_attributes", f"polynomial_from_attributes(..., dtype={akw['dtype']}) returned dtype {p.dtype}",
                                 {"rows": rows, "cols": cols, "names": names, "dtype": akw["dtype"]}))
            if not rc and any(any(r) and not any(c) for r, c in zip(rows, cols)) and len(rows) == len(cols):
                kept = [tuple(r) for r in p.exponents.tolist()]
                if any(tuple(r) in kept for r, c in zip(rows, cols) if any(r) and not any(c)) and len(set(map(tuple, rows))) == len(rows):
                    viol.append(("keeps-zero-term", f"polynomial_from_attributes(rows={rows}, cols={cols}, retain_coefficients={e_rc}) under global "
                                 f"retain_coefficients={g_rc} keeps an all-zero non-constant term", {"rows": rows, "cols": cols, "names": names,
                                                                                                 "explicit": [e_rc, e_rn], "global": [g_rc, g_rn]}))
            exp = lay_coq(core.poly_layout(p))
            bad = wf_facts(p)
            if bad:
                viol.append(("wf:from_attributes", f"polynomial_from_attributes(rows={rows}, names={tnames}, retain=({rc},{rn})) "
                             f"returned an ill-formed polynomial: {bad[0]}", {"rows": rows, "cols": cols, "names": names}))
            # value never changes
            want = {}
            got_shape, got = core.canon_elements(p)
            for i in range(size):
                t = {}
                for r, c in zip(rows, cols):
                    if c[i]:
                        m = tuple(sorted((v, e) for v, e in zip(names, r) if e))
                        t[m] = t.get(m, 0) + c[i]
                if sorted((m, v) for m, v in t.items() if v) != got[i]:
                    viol.append(("value:from_attributes", f"cleaning changed the polynomial: rows={rows} cols={cols} names={tnames}",
                                 {"rows": rows, "cols": cols, "names": names}))
                    break
            if any(not any(c) for c in cols) or any(all(r[j] == 0 for r in rows) for j in range(D)):
                nontrivial.add(json.dumps([rows, cols, names, rc, rn]))
        except Exception as exc:  # noqa: BLE001
            exp = f"(LErr {core.err_enum(exc)})"
        term = (f"chk_layout (zfrom_attributes {core.cbool(rc)} {core.cbool(rn)} {core.cnats(names)} {core.cnats(shape)} "
                f"{core.cseq(core.cnats(r) for r in rows)} {core.cseq(core.cseq(core.cz(v) for v in c) for c in cols)}) {exp}")
        cc.add(term, {"kind": "from_attributes", "rows": rows, "cols": cols, "names": names, "retain": [rc, rn],
                      "explicit": [e_rc, e_rn], "global": [g_rc, g_rn], "impl": exp[:300]})
        # the same cleaning applied to an existing polynomial that still carries the redundancy (clean_attributes with
        # explicit or omitted flags under the same global setting): must give what from_attributes gives on the triple
        try:
            raw = numpoly.polynomial_from_attributes(rows, arrs, tnames, retain_coefficients=True, retain_names=True)
        except Exception:  # noqa: BLE001
            raw = None
        if raw is not None and len(rows) == len(cols):
            kw = {}
            if e_rc is not None or rng.random() < 0.5:
                kw["retain_coefficients"] = e_rc
            if e_rn is not None or rng.random() < 0.5:
                kw["retain_names"] = e_rn
            try:
                with numpoly.global_options(retain_coefficients=g_rc, retain_names=g_rn):
                    q = numpoly.clean_attributes(raw, **kw)
                exp2 = lay_coq(core.poly_layout(q))
            except Exception as exc:  # noqa: BLE001
                exp2 = f"(LErr {core.err_enum(exc)})"
            term2 = (f"chk_layout (zfrom_attributes {core.cbool(rc)} {core.cbool(rn)} {core.cnats(names)} {core.cnats(shape)} "
                     f"{core.cseq(core.cnats(r) for r in rows)} {core.cseq(core.cseq(core.cz(v) for v in c) for c in cols)}) {exp2}")
            cc.add(term2, {"kind": "clean_attributes", "rows": rows, "cols": cols, "names": names, "retain": [rc, rn],
                           "explicit": kw, "global": [g_rc, g_rn], "impl": exp2[:300]})
    failed, errors = cc.run() if tr_ok else ([], [])
    report.coverage.update({
        "evaluations": n_ops + n_attr, "distinct_nontrivial": len(nontrivial),
        "rule": "(1) results of 17 public operations on the C01 operand space, each checked for the stated "
                "well-formedness facts and the three rebuild paths on /repo's objects; (2) attribute triples with "
                "redundant zero terms, unused names, unsorted/duplicate rows, duplicate names, length mismatches, both "
                "retain flags, through polynomial_from_attributes vs the model; non-trivial = a triple with a redundant "
                "term or an unused name",
        "operations": stats, "coq_cases": len(cc.cases), "translator": "ok" if tr_ok else "failed", "source_facts": info,
        "traces_validated_against_impl": len(cc.cases),
    })
    kinds = set()
    for kind, what, rep in viol:
        kf = report.match_known(kind)
        if kf:
            if kind not in kinds:
                report.known_finding(kf["id"], kf["what"] + " — e.g. " + what[:200])
            kinds.add(kind)
            continue
        if kind in kinds:
            continue
        kinds.add(kind)
        report.violation("C03: " + what, {"kind": kind, **rep})
    if not report.violations:
        for k, path, log in errors:
            report.violation(f"correspondence shard did not evaluate: {log[-300:]}", {"kind": "shard-error", "log": log}, found_input=False)
        for idx in failed[:3]:
            term, meta = cc.cases[idx]
            report.violation(f"model and implementation disagree on {meta}", {"kind": "correspondence", "term": term[:600], **meta})
        if not ok and not report.violations:
            report.violation("C03: bridge/proof obligation no longer checks: "
                             + str(report.coverage.get("broken_obligation", {}).get("where") or report.notes),
                             {"kind": "broken-proof", "theorem": "Bridge/BridgeClean.v", **report.coverage.get("broken_obligation", {})},
                             found_input=False)
    report.coverage["trusted_base"] = ["Coq 8.16.1 kernel + VM", "MathComp / SsrMultinomials", "translator clean_tr.py"]
    report.assumptions += ["integer coefficients (int64); the default allocation"]


def replay(path):
    data = json.load(open(path))
    print(json.dumps(data["replay"], indent=1)[:2500])
    return 0
