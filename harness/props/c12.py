"""C12 — coefficient values survive every dtype; no uninitialised memory is returned.

Implementation side: every case runs with the poison hook installed (each freshly allocated
ndpoly buffer is filled with 0xA5), the result is compared with numpy's own cast / promoted
arithmetic on plain arrays (dtype, shape, every coefficient) and every returned buffer is scanned
for cells that still carry the poison pattern.  Model side: the same cases go to Model/DType.v
(cell-level model of the write paths, run by vm_compute) with the defect switches that the
recorded witnesses establish on the tree under test.
"""
from __future__ import annotations

import itertools
import json
import warnings

import numpy
import numpoly

from harness import core

try:
    from harness.translators import dtype_tr
except Exception:  # noqa: BLE001
    dtype_tr = None

TARGETS = ["Bridge/BridgeDType.vo", "Props/P_C12.vo"]
POISON = 0xA5
DT = ["bool", "int8", "int16", "int32", "int64", "uint8", "uint16", "uint32", "uint64",
      "float16", "float32", "float64", "complex64", "complex128"]
CQ = {"bool": "B8", "int8": "I8", "int16": "I16", "int32": "I32", "int64": "I64", "uint8": "U8",
      "uint16": "U16", "uint32": "U32", "uint64": "U64", "float16": "F16", "float32": "F32",
      "float64": "F64", "complex64": "C64", "complex128": "C128"}
K5 = {"bool", "uint32", "int64", "float64", "complex128"}
PREC = {"float16": 11, "float32": 24, "float64": 53, "complex64": 24, "complex128": 53}
SWITCHES = ["no_cast", "kernel_only", "mul_kernel_only", "empty_unwritten", "size0_scalar", "bcast_int",
            "strong_scalars"]
# known-finding keys, in the order in which a failing case is attributed
KEYS = {
    "size0_scalar": "coefficients:zero-size-array-becomes-scalar",
    "empty_unwritten": "from_attributes:empty-coefficient-list-unwritten",
    "no_cast": "from_attributes:coefficients-not-cast-to-dtype",
    "kernel_only": "cset_values:dtype-not-in-fast-path",
    "mul_kernel_only": "cmultiply:dtype-not-in-fast-path",
    "bcast_int": "align_shape:broadcast-changes-dtype",
    "strong_scalars": "python-scalar:not-weakly-promoted",
}


# ----------------------------------------------------------------------------------------------
# poison hook
# ----------------------------------------------------------------------------------------------
def install_poison():
    if getattr(numpoly.ndpoly, "_c12_poisoned", False):
        return
    orig = numpoly.ndpoly.__new__

    def wrapper(cls, *args, **kwargs):
        obj = orig(cls, *args, **kwargs)
        if obj.nbytes:
            numpy.ndarray(shape=(obj.nbytes,), dtype=numpy.uint8, buffer=obj.data)[:] = POISON
        return obj

    numpoly.ndpoly.__new__ = staticmethod(wrapper)
    numpoly.ndpoly._c12_poisoned = True


# ----------------------------------------------------------------------------------------------
# dtypes and exact values
# ----------------------------------------------------------------------------------------------
def kind(dt):
    return numpy.dtype(dt).kind          # b i u f c


def bits(dt):
    return numpy.dtype(dt).itemsize * 8


def in_range(dt, v):
    k = kind(dt)
    if k == "c":
        return isinstance(v, tuple) and all(abs(x) <= 2 ** PREC[dt] for x in v)
    if isinstance(v, tuple):
        return False
    if k == "b":
        return v in (0, 1)
    if k == "i":
        return -2 ** (bits(dt) - 1) <= v < 2 ** (bits(dt) - 1)
    if k == "u":
        return 0 <= v < 2 ** bits(dt)
    return abs(v) <= 2 ** PREC[dt]


def pool(dt):
    k = kind(dt)
    if k == "b":
        return [0, 1]
    base = [0, 1, -1, 2, 3, -2, 5, 7, 100, 127, 128, -128, -129, 255, 256, 1000, 2047, 2048, -2048, 32767, 32768, 65535, 65536,
            2 ** 24, 2 ** 24 - 1, -(2 ** 24), 2 ** 31 - 1, 2 ** 31, -(2 ** 31), 2 ** 32 - 1, 2 ** 32, 2 ** 53, 2 ** 53 - 1, -(2 ** 53),
            2 ** 53 + 1, 2 ** 63 - 1, -(2 ** 63), 2 ** 63, 2 ** 64 - 1]
    if k == "c":
        re = [v for v in base if in_range(dt.replace("complex64", "float32").replace("complex128", "float64"), v)]
        return [(a, b) for a, b in zip(re, re[3:] + re[:3])]
    return [v for v in base if in_range(dt, v)]


def to_array(vals, dt, shape=None):
    """numpy array of dtype dt holding the exact values (complex: (re, im) pairs)."""
    if kind(dt) == "c":
        a = numpy.array([complex(*v) if isinstance(v, tuple) else complex(v) for v in vals], dtype=dt)
    elif kind(dt) == "f":
        a = numpy.array([float(v) for v in vals], dtype=dt)
    else:
        a = numpy.array([int(v) for v in vals], dtype=dt) if len(vals) else numpy.zeros(0, dtype=dt)
    return a.reshape(shape) if shape is not None else a


def exact(x):
    """Exact value of a numpy scalar: int, (re, im) for complex dtypes, None if not integral/finite."""
    if isinstance(x, (numpy.bool_, bool)):
        return int(x)
    if isinstance(x, (numpy.integer, int)):
        return int(x)
    if isinstance(x, (numpy.floating, float)):
        f = float(x)
        if f != f or f in (float("inf"), float("-inf")) or not f.is_integer():
            return None
        return int(f)
    if isinstance(x, (numpy.complexfloating, complex)):
        c = complex(x)
        a, b = exact(c.real), exact(c.imag)
        return None if a is None or b is None else (a, b)
    return None


def exact_list(arr):
    a = numpy.asarray(arr)
    return [exact(v) for v in a.reshape(-1)]


def model_value(dt, v):
    """Gallina value for an exact value held in dtype dt (None -> Inexact)."""
    if v is None:
        return "Inexact"
    if kind(dt) == "c":
        if not isinstance(v, tuple):
            v = (v, 0)
        if not in_range(dt, v):
            return "Inexact"
        return f"VC {cz(v[0])} {cz(v[1])}"
    if isinstance(v, tuple):
        v = v[0]
    if kind(dt) == "f" and not in_range(dt, v):
        return "Inexact"
    return f"VZ {cz(v)}"


def cz(v):
    v = int(v)
    return f"({v})" if v < 0 else str(v)


def clist(items):
    return "[" + "; ".join(items) + "]"


def cvals(dt, vals):
    return clist(model_value(dt, v) for v in vals)


def ccols(dt, cols):
    return clist(cvals(dt, c) for c in cols)


def cnats(xs):
    return clist(f"{int(x)}%nat" for x in xs)


def copt(d):
    return f"(Some {CQ[d]})" if d else "None"


# ----------------------------------------------------------------------------------------------
# harness-side polynomials (the oracle): dtype, shape, {canonical monomial: numpy array}
# ----------------------------------------------------------------------------------------------
class HP:
    """A polynomial array as plain numpy data.  terms: {exponent tuple over names: ndarray}."""

    def __init__(self, dt, shape, names, terms):
        self.dt, self.shape, self.names = str(numpy.dtype(dt)), tuple(shape), tuple(names)
        self.terms = {tuple(int(x) for x in e): numpy.asarray(a, dtype=self.dt).reshape(self.shape)
                      for e, a in terms.items()}

    @property
    def size(self):
        return int(numpy.prod(self.shape)) if self.shape else 1

    def canon(self):
        return {mono(self.names, e): a for e, a in self.terms.items()}

    def build(self):
        """The same polynomial as an ndpoly, written through plain numpy assignment (so that it is
        correct whatever the state of the library's own write paths)."""
        exps = list(self.terms)
        p = numpoly.ndpoly(exponents=exps, shape=self.shape, names=self.names, dtype=self.dt)
        vals = p.values
        for key, e in zip(p.keys, exps):
            vals[key] = self.terms[e]
        return p

    def cols(self, keys):
        """Exact value lists for the canonical keys (zeros where the term is absent)."""
        c = self.canon()
        return [exact_list(c[k]) if k in c else exact_list(numpy.zeros(self.shape, dtype=self.dt)) for k in keys]


def mono(names, e):
    return tuple(sorted((core.name_index(n), int(x)) for n, x in zip(names, e) if int(x)))


def mono_mul(a, b):
    d = dict(a)
    for v, e in b:
        d[v] = d.get(v, 0) + e
    return tuple(sorted(d.items()))


def observe(p):
    """dtype, shape, {canonical monomial: (values ndarray, exact list, poison flags)} of a result."""
    if not isinstance(p, numpoly.ndpoly):
        a = numpy.asarray(p)
        flat = numpy.ascontiguousarray(a).reshape(-1)
        return {"dtype": str(a.dtype), "shape": tuple(a.shape),
                "terms": {(): (a, exact_list(a), [False] * flat.size)}, "ndarray": True}
    out = {}
    exps = p.exponents.tolist()
    for key, e in zip(p.keys, exps):
        f = numpy.ndarray.__getitem__(p, key)
        flat = numpy.ascontiguousarray(f).reshape(-1)
        if flat.size:
            raw = flat.view(numpy.uint8).reshape(flat.size, flat.dtype.itemsize)
            pois = (raw == POISON).all(axis=1).tolist()
        else:
            pois = []
        m = mono(p.names, e)
        if m in out:      # two storage keys for one monomial: keep both visible (C03's business): add up
            prev = out[m]
            out[m] = (prev[0] + numpy.asarray(f), exact_list(prev[0] + numpy.asarray(f)), [a or b for a, b in zip(prev[2], pois)])
        else:
            out[m] = (numpy.asarray(f), exact_list(flat), pois)
    return {"dtype": str(p.dtype), "shape": tuple(p.shape), "terms": out, "ndarray": False}


def compare(ob, want_dt, want_shape, want_terms):
    """Direct check of the property on one result.  Returns None or (category, text)."""
    if ob["dtype"] != want_dt:
        return ("dtype", f"dtype {ob['dtype']}, numpy gives {want_dt}")
    if tuple(ob["shape"]) != tuple(want_shape):
        return ("shape", f"shape {tuple(ob['shape'])}, numpy gives {tuple(want_shape)}")
    for k in sorted(set(ob["terms"]) | set(want_terms), key=repr):
        want = want_terms.get(k)
        if want is None:
            want = numpy.zeros(want_shape, dtype=want_dt)
        want = numpy.asarray(want, dtype=want_dt).reshape(want_shape)
        if k in ob["terms"]:
            got, _, pois = ob["terms"][k]
            wraw = numpy.ascontiguousarray(want).reshape(-1)
            for i, flag in enumerate(pois):
                if flag and not (wraw[i:i + 1].view(numpy.uint8) == POISON).all():
                    return ("poison", f"coefficient of {show_mono(k)}, element {i}, was never written (poison pattern), "
                                      f"numpy gives {wraw[i]!r}")
            if not numpy.array_equal(numpy.asarray(got), want, equal_nan=True):
                bad = [(i, a, b) for i, (a, b) in enumerate(zip(numpy.asarray(got).reshape(-1).tolist(), wraw.tolist()))
                       if not (a == b or (a != a and b != b))][:2]
                return ("value", f"coefficient of {show_mono(k)}: got/expected at (index, got, numpy) {bad}")
        else:
            if numpy.any(want):
                return ("value", f"coefficient of {show_mono(k)} is missing, numpy gives {want.reshape(-1).tolist()[:4]}")
    return None


def show_mono(k):
    return "*".join(f"q{v}" + (f"**{e}" if e > 1 else "") for v, e in k) or "1"


def coq_obs(ob, keys):
    """Implementation observation as a Gallina term: (dtype, [Some [cells] | None ...]) in the key order."""
    cols = []
    dt = ob["dtype"]
    for k in keys:
        if k not in ob["terms"]:
            cols.append("None")
            continue
        _, ex, pois = ob["terms"][k]
        cells = []
        for v, flag in zip(ex, pois):
            if flag and v is not None and kind(dt) != "c":
                cells.append(f"IPV (VZ {cz(v)})")     # poison bytes that also spell an exact value of this dtype
            elif flag and v is not None:
                cells.append(f"IPV (VC {cz(v[0])} {cz(v[1])})")
            elif flag:
                cells.append("IP")
            elif v is None:
                cells.append("IG")
            elif kind(dt) == "c":
                cells.append(f"IV (VC {cz(v[0])} {cz(v[1])})")
            else:
                cells.append(f"IV (VZ {cz(v)})")
        cols.append("(Some " + clist(cells) + ")")
    return CQ.get(dt), clist(cols)


# ----------------------------------------------------------------------------------------------
# oracle: numpy's own casts and promoted arithmetic on the plain coefficient arrays
# ----------------------------------------------------------------------------------------------
def rt(a, b):
    return str(numpy.result_type(numpy.dtype(a), numpy.dtype(b)))


class PyScalar:
    """A Python scalar operand (weak under NEP 50)."""

    def __init__(self, z):
        self.z = z
        self.pykind = {bool: "PyBool", int: "PyInt", float: "PyFloat", complex: "PyComplex"}[type(z)]
        self.default = {bool: "bool", int: "int64", float: "float64", complex: "complex128"}[type(z)]
        self.shape = ()

    def zero(self):
        return type(self.z)(0)

    def exact(self):
        return int(self.z.imag) if isinstance(self.z, complex) else int(self.z)


# C12 speaks of arithmetic BETWEEN DTYPES.  A Python number has no dtype: numpoly converts it with
# numpoly.polynomial(z) (int64 / float64 / complex128, "strong") — numpy's NEP 50 would treat it as
# weak.  Both give exact values in a dtype numpy assigns to such an operand, so neither is a violation
# of the property as worded: the oracle types the scalar the way the tree under test does (detected by
# a witness at the start of the run) and the difference is recorded in the evidence, not reported.
SCALARS_STRONG = [True]


def sval(s):
    return numpy.asarray(s.z) if SCALARS_STRONG[0] else s.z


def o_binop(op, x, y):
    """x, y: HP or PyScalar (at most one scalar).  Returns (dtype, shape, canonical terms)."""
    f = {"add": numpy.add, "sub": numpy.subtract}[op]
    cx = {(): sval(x)} if isinstance(x, PyScalar) else x.canon()
    cy = {(): sval(y)} if isinstance(y, PyScalar) else y.canon()
    zx = x.zero() if isinstance(x, PyScalar) else numpy.zeros(x.shape, dtype=x.dt)
    zy = y.zero() if isinstance(y, PyScalar) else numpy.zeros(y.shape, dtype=y.dt)
    out = {}
    for k in sorted(set(cx) | set(cy), key=repr):
        out[k] = f(cx.get(k, zx), cy.get(k, zy))
    any_ = next(iter(out.values()))
    return str(any_.dtype), tuple(any_.shape), out


def o_mul(x, y):
    cx = {(): sval(x)} if isinstance(x, PyScalar) else x.canon()
    cy = {(): sval(y)} if isinstance(y, PyScalar) else y.canon()
    out = {}
    for k1, a in cx.items():
        for k2, b in cy.items():
            k = mono_mul(k1, k2)
            prod = numpy.multiply(a, b)
            out[k] = numpy.add(out[k], prod) if k in out else prod
    any_ = next(iter(out.values()))
    return str(any_.dtype), tuple(any_.shape), out


def o_pow(x, e):
    acc = HP(x.dt, x.shape, x.names, {(0,) * len(x.names): numpy.ones(x.shape, dtype=x.dt)})
    c = acc.canon()
    dt, shape = x.dt, x.shape
    for _ in range(e):
        nxt = {}
        for k1, a in c.items():
            for k2, b in x.canon().items():
                k = mono_mul(k1, k2)
                prod = numpy.multiply(a, b)
                nxt[k] = numpy.add(nxt[k], prod) if k in nxt else prod
        c = nxt
    return dt, shape, c


def o_map(x, fn):
    """Apply a numpy function to every coefficient array."""
    out = {k: numpy.asarray(fn(a)) for k, a in x.canon().items()}
    any_ = next(iter(out.values()))
    return str(any_.dtype), tuple(any_.shape), out


def o_map2(x, y, fn):
    cx, cy = x.canon(), y.canon()
    zx, zy = numpy.zeros(x.shape, dtype=x.dt), numpy.zeros(y.shape, dtype=y.dt)
    out = {k: numpy.asarray(fn(cx.get(k, zx), cy.get(k, zy))) for k in sorted(set(cx) | set(cy), key=repr)}
    any_ = next(iter(out.values()))
    return str(any_.dtype), tuple(any_.shape), out


# ----------------------------------------------------------------------------------------------
# cases
# ----------------------------------------------------------------------------------------------
class Case:
    def __init__(self, kind_, desc, run, expect, coq=None, keys=None, tags=None, table=None):
        self.kind, self.desc, self.run, self.expect = kind_, desc, run, expect
        self.coq, self.keys, self.tags, self.table = coq, keys, tags or (lambda Q: {}), table


def explain(tags, Q):
    """Known-finding keys that can affect a case, given the defect switches found on this tree."""
    out = []

    def add(sw):
        if KEYS[sw] not in out:
            out.append(KEYS[sw])
    if Q["size0_scalar"] and tags.get("size0"):
        add("size0_scalar")
    if Q["empty_unwritten"] and (tags.get("empty") or (tags.get("size0") and Q["size0_scalar"])):
        add("empty_unwritten")
    for s, f in tags.get("writes", []):
        if Q["no_cast"] and s in K5 and s != f:
            add("no_cast")
        src = s if Q["no_cast"] else f
        if Q["kernel_only"] and src not in K5:
            add("kernel_only")
    for f in tags.get("mul", []):
        if Q["mul_kernel_only"] and f not in K5:
            add("mul_kernel_only")
    for d in tags.get("bcast", []):
        if Q["bcast_int"] and rt(d, "int64") != d:
            add("bcast_int")
    if tags.get("scalar") and Q["strong_scalars"]:
        d, sc = tags["scalar"]
        try:
            weak = str(numpy.result_type(numpy.dtype(d), sc.z))
            (numpy.zeros(1, dtype=d) + sc.z)
        except OverflowError:
            weak = None
        if weak != rt(d, sc.default):
            add("strong_scalars")
    return out


def bdt(Q, d, b):
    """dtype of an operand after align_shape stretched it (b) on this tree."""
    return rt(d, "int64") if (b and Q["bcast_int"]) else d


def sdt(Q, d, sc):
    """dtype the library gives a Python scalar operand next to dtype d on this tree."""
    if Q["strong_scalars"]:
        return sc.default
    return str(numpy.result_type(numpy.dtype(d), sc.z))


def sample_vals(rng, dt, n, wide=True):
    p = pool(dt)
    small = [v for v in p if (abs(v[0]) if isinstance(v, tuple) else abs(v)) <= 7]
    out = []
    for i in range(n):
        src = p if (wide and rng.random() < 0.5) else small
        out.append(rng.choice(src))
    if kind(dt) != "b" and all((v == 0 or v == (0, 0)) for v in out):
        out[0] = p[1]
    return out


def fits(dt, v):
    """May the exact value v (held in a float/complex source) be cast to dt with a defined result?"""
    if kind(dt) in "iu":
        x = v[0] if isinstance(v, tuple) else v
        return in_range(dt, x)
    return True


def cast_vals(rng, s, d, n):
    """n values of dtype s whose numpy cast to d is well defined."""
    p = pool(s)
    if kind(s) in "fc" and d is not None:
        p = [v for v in p if fits(d, v)]
    vals = [rng.choice(p) for _ in range(n)]
    if all((v == 0 or v == (0, 0)) for v in vals):
        vals[0] = [v for v in p if v not in (0, (0, 0))][0]
    return vals


def np_cast(a, d):
    with warnings.catch_warnings():
        warnings.simplefilter("ignore")
        return numpy.asarray(a).astype(d)


def gen_construct(rng, tier):
    """polynomial / aspolynomial / polynomial_from_attributes / dict, data dtype s, dtype argument d."""
    cases = []
    n = 4
    for s in DT:
        for d in [None] + DT:
            forms = ["ndarray", "aspoly-ndarray", "poly", "aspoly-poly", "attrs", "dict", "npscalar", "list-np"]
            for form in forms:
                vals0 = cast_vals(rng, s, d, n)
                vals1 = cast_vals(rng, s, d, n)
                fd = d or s
                keys = [(), ((0, 1),)]
                if form in ("ndarray", "aspoly-ndarray"):
                    arr = to_array(vals0, s)
                    fn = numpoly.polynomial if form == "ndarray" else numpoly.aspolynomial
                    run = (lambda fn=fn, arr=arr, d=d: fn(arr, dtype=d))
                    exp = (lambda arr=arr, fd=fd: ("ok", fd, arr.shape, {(): np_cast(arr, fd)}))
                    coq = (lambda o, s=s, d=d, vals0=vals0: f"chk (construct Q {CQ[s]} {copt(d)} {ccols(s, [vals0])}) {o[0]} {o[1]}")
                    ks = [()]
                    tg = (lambda Q, s=s, fd=fd: {"writes": [(s, fd)]})
                elif form == "npscalar":
                    x = to_array(vals0[:1], s)[0]
                    run = (lambda x=x, d=d: numpoly.polynomial(x, dtype=d))
                    exp = (lambda x=x, fd=fd: ("ok", fd, (), {(): np_cast(x, fd)}))
                    coq = (lambda o, s=s, d=d, vals0=vals0: f"chk (construct Q {CQ[s]} {copt(d)} {ccols(s, [vals0[:1]])}) {o[0]} {o[1]}")
                    ks = [()]
                    tg = (lambda Q, s=s, fd=fd: {"writes": [(s, fd)]})
                elif form == "list-np":
                    xs = list(to_array(vals0, s))

                    def exp(xs=xs, fd=fd):
                        try:
                            with warnings.catch_warnings():
                                warnings.simplefilter("ignore")
                                a = numpy.array(xs, dtype=fd)
                        except (OverflowError, TypeError) as exc:
                            return ("raise", (type(exc).__name__,))
                        return ("ok", fd, a.shape, {(): a})
                    run = (lambda xs=xs, d=d: numpoly.polynomial(xs, dtype=d))
                    r0 = exp()
                    if r0[0] == "ok":
                        cv = exact_list(r0[3][()])
                        coq = (lambda o, fd=fd, cv=cv: f"chk (construct Q {CQ[fd]} None {ccols(fd, [cv])}) {o[0]} {o[1]}" if o else None)
                    else:
                        coq = None
                    ks = [()]
                    tg = (lambda Q, fd=fd: {"writes": [(fd, fd)]})
                elif form in ("poly", "aspoly-poly"):
                    hp = HP(s, (n,), ("q0",), {(0,): to_array(vals0, s), (1,): to_array(vals1, s)})
                    fn = numpoly.polynomial if form == "poly" else numpoly.aspolynomial
                    run = (lambda fn=fn, hp=hp, d=d: fn(hp.build(), dtype=d))
                    exp = (lambda hp=hp, fd=fd: ("ok", fd, hp.shape, {k: np_cast(a, fd) for k, a in hp.canon().items()}))
                    same = form == "aspoly-poly" and (d is None or d == s)
                    if same:
                        coq = (lambda o, s=s, hp=hp, keys=keys: f"chk (good {CQ[s]} {ccols(s, hp.cols(keys))}) {o[0]} {o[1]}")
                        tg = (lambda Q: {})
                    else:
                        coq = (lambda o, s=s, d=d, hp=hp, keys=keys:
                               f"chk (rebuild Q {copt(d)} (good {CQ[s]} {ccols(s, hp.cols(keys))})) {o[0]} {o[1]}")
                        tg = (lambda Q, s=s, fd=fd: {"writes": [(s, fd)]})
                    ks = keys
                else:   # attrs / dict
                    a0, a1 = to_array(vals0, s), to_array(vals1, s)
                    if form == "attrs":
                        run = (lambda a0=a0, a1=a1, d=d: numpoly.polynomial_from_attributes([[0], [1]], [a0, a1], dtype=d))
                    else:
                        run = (lambda a0=a0, a1=a1, d=d: numpoly.polynomial({(0,): a0, (1,): a1}, dtype=d))
                    exp = (lambda a0=a0, a1=a1, fd=fd: ("ok", fd, a0.shape, {(): np_cast(a0, fd), ((0, 1),): np_cast(a1, fd)}))
                    coq = (lambda o, s=s, d=d, vals0=vals0, vals1=vals1:
                           f"chk (construct Q {CQ[s]} {copt(d)} {ccols(s, [vals0, vals1])}) {o[0]} {o[1]}")
                    ks = keys
                    tg = (lambda Q, s=s, fd=fd: {"writes": [(s, fd)]})
                cases.append(Case("construct:" + form, f"{form} data {s} dtype={d}", run, exp, coq, ks, tg,
                                  table=("construct", s, d or "-")))
    # Python lists / scalars with a dtype argument (NEP 50: out-of-range Python ints raise)
    for d in [None] + DT:
        for data in ([1, 2, 3], [0, -1, 5], [127, 128, 255], [300, 1, 2], [2 ** 31 - 1, 2 ** 31, 1], [1.0, 2.0, 3.0], [True, False, True]):
            def exp(data=data, d=d):
                try:
                    with warnings.catch_warnings():
                        warnings.simplefilter("ignore")
                        a = numpy.array(data, dtype=d)
                except OverflowError:
                    return ("raise", ("OverflowError",))
                return ("ok", str(a.dtype), a.shape, {(): a})
            r = exp()
            if r[0] == "ok":
                cv = exact_list(r[3][()])
                coq = (lambda o, fd=r[1], cv=cv: f"chk (construct Q {CQ[fd]} None {ccols(fd, [cv])}) {o[0]} {o[1]}")
                tg = (lambda Q, fd=r[1]: {"writes": [(fd, fd)]})
            else:
                coq, tg = None, (lambda Q: {})
            cases.append(Case("construct:list", f"polynomial({data}, dtype={d})",
                              (lambda data=data, d=d: numpoly.polynomial(data, dtype=d)), exp, coq, [()], tg,
                              table=("construct-list", type(data[0]).__name__, d or "-")))
        for x in (3, -2, 255, 2.0, True):
            def exp(x=x, d=d):
                a = numpy.asarray(x)
                fd = d or str(a.dtype)
                return ("ok", fd, (), {(): np_cast(a, fd)})
            s = str(numpy.asarray(x).dtype)
            coq = (lambda o, s=s, d=d, x=x: f"chk (construct Q {CQ[s]} {copt(d)} {ccols(s, [[int(x)]])}) {o[0]} {o[1]}")
            cases.append(Case("construct:pyscalar", f"polynomial({x!r}, dtype={d})",
                              (lambda x=x, d=d: numpoly.polynomial(x, dtype=d)), exp, coq, [()],
                              (lambda Q, s=s, d=d: {"writes": [(s, d or s)]}), table=("construct-scalar", s, d or "-")))
    # lists that mix a numpy scalar (or a polynomial) of a non-default dtype with plain Python numbers: numpy.array of the
    # same list is the reference (a Python number in a list is a full int64 / float64 / complex128 there)
    for sdt in ("int8", "uint8", "int16", "uint16", "float16", "float32", "complex64", "uint32", "uint64"):
        for py in (7, -1, 0.5, 2 + 1j, 300):
            one = numpy.dtype(sdt).type(1)
            for form in ("scalar-first", "scalar-last", "poly"):
                if form == "poly":
                    data_np = [one, py]
                    make = (lambda sdt=sdt, py=py: numpoly.polynomial([numpoly.polynomial(numpy.dtype(sdt).type(1)), py]))
                else:
                    data_np = [one, py] if form == "scalar-first" else [py, one]
                    make = (lambda data_np=data_np: numpoly.polynomial(list(data_np)))

                def exp(data_np=data_np):
                    with warnings.catch_warnings():
                        warnings.simplefilter("ignore")
                        a = numpy.array(data_np)
                    return ("ok", str(a.dtype), a.shape, {(): a})
                cases.append(Case("construct:list", f"polynomial([{sdt}(1), {py!r}]) ({form})", make, expect_or_raise(lambda exp=exp: exp()[1:]),
                                  None, [()], (lambda Q: {}), table=("construct-list-mixed", sdt, f"{type(py).__name__}:{form}")))
    # coefficient lists of mixed dtypes: the common dtype (numpy.result_type) of all coefficients
    for s1, s2 in itertools.product(["int64", "float64", "int8", "uint32", "bool", "complex128", "float32"], repeat=2):
        v1, v2 = cast_vals(rng, s1, None, 3), [v for v in cast_vals(rng, s2, s1, 3)]
        a1, a2 = to_array(v1, s1), to_array(v2, s2)
        cases.append(Case("construct:mixed", f"from_attributes coefficients {s1},{s2}",
                          (lambda a1=a1, a2=a2: numpoly.polynomial_from_attributes([[0], [1]], [a1, a2])),
                          (lambda a1=a1, a2=a2, s1=s1, s2=s2: ("ok", rt(s1, s2), a1.shape, {(): np_cast(a1, rt(s1, s2)), ((0, 1),): np_cast(a2, rt(s1, s2))})),
                          (lambda o, s1=s1, s2=s2, v1=v1, v2=v2:
                           f"chk (from_attributes Q None 2%nat [({CQ[s1]}, {cvals(s1, v1)}); ({CQ[s2]}, {cvals(s2, v2)})]) {o[0]} {o[1]}"),
                          [(), ((0, 1),)], (lambda Q, s1=s1, s2=s2: {"writes": [(s1, rt(s1, s2)), (s2, rt(s1, s2))]}),
                          table=("construct-mixed", s1, s2)))
        # the same with read-only coefficient buffers (numpy.frombuffer, memmaps, frozen arrays, broadcast views):
        # the writer must still cast every coefficient to the common dtype
        for which in ("first", "second", "both"):
            r1, r2 = a1.copy(), a2.copy()
            if which in ("first", "both"):
                r1.setflags(write=False)
            if which in ("second", "both"):
                r2.setflags(write=False)
            cases.append(Case("construct:mixed", f"from_attributes coefficients {s1},{s2} ({which} read-only)",
                              (lambda r1=r1, r2=r2: numpoly.polynomial_from_attributes([[0], [1]], [r1, r2])),
                              (lambda a1=a1, a2=a2, s1=s1, s2=s2: ("ok", rt(s1, s2), a1.shape, {(): np_cast(a1, rt(s1, s2)), ((0, 1),): np_cast(a2, rt(s1, s2))})),
                              (lambda o, s1=s1, s2=s2, v1=v1, v2=v2:
                               f"chk (from_attributes Q None 2%nat [({CQ[s1]}, {cvals(s1, v1)}); ({CQ[s2]}, {cvals(s2, v2)})]) {o[0]} {o[1]}"),
                              [(), ((0, 1),)], (lambda Q, s1=s1, s2=s2: {"writes": [(s1, rt(s1, s2)), (s2, rt(s1, s2))]}),
                              table=("construct-mixed-readonly", s1, s2 + ":" + which)))
    return cases


def gen_symbols(rng, tier):
    cases = []
    for d in DT:
        one = numpy.ones((), dtype=d)
        cases.append(Case("variable", f"variable(dtype={d})", (lambda d=d: numpoly.variable(dtype=d)),
                          (lambda d=d, one=one: ("ok", d, (), {((0, 1),): one})),
                          (lambda o, d=d: f"chk (reindex Q true [0%nat] (construct Q {CQ[d]} None [[VZ 1]])) {o[0]} {o[1]}"),
                          [((0, 1),)], (lambda Q, d=d: {"writes": [(d, d)]}), table=("variable", d, "-")))
        eye = numpy.eye(2, dtype=d)
        cases.append(Case("symbols", f"symbols('q0,q1', dtype={d})", (lambda d=d: numpoly.symbols("q0,q1", dtype=d)),
                          (lambda d=d, eye=eye: ("ok", d, (2,), {((0, 1),): eye[0], ((1, 1),): eye[1]})),
                          (lambda o, d=d: f"chk (construct Q {CQ[d]} None [[VZ 1; VZ 0]; [VZ 0; VZ 1]]) {o[0]} {o[1]}"),
                          [((0, 1),), ((1, 1),)], (lambda Q, d=d: {"writes": [(d, d)]}), table=("symbols", d, "-")))
        cases.append(Case("symbols", f"symbols('q3', dtype={d})", (lambda d=d: numpoly.symbols("q3", dtype=d)),
                          (lambda d=d, one=one: ("ok", d, (), {((3, 1),): one})),
                          (lambda o, d=d: f"chk (reindex Q true [0%nat] (construct Q {CQ[d]} None [[VZ 1]])) {o[0]} {o[1]}"),
                          [((3, 1),)], (lambda Q, d=d: {"writes": [(d, d)]}), table=("symbols1", d, "-")))
        cases.append(Case("variable", f"variable(2, dtype={d})", (lambda d=d: numpoly.variable(2, dtype=d)),
                          (lambda d=d, eye=eye: ("ok", d, (2,), {((0, 1),): eye[0], ((1, 1),): eye[1]})),
                          (lambda o, d=d: f"chk (construct Q {CQ[d]} None [[VZ 1; VZ 0]; [VZ 0; VZ 1]]) {o[0]} {o[1]}"),
                          [((0, 1),), ((1, 1),)], (lambda Q, d=d: {"writes": [(d, d)]}), table=("variable2", d, "-")))
    for args, kw in (((3,), {}), ((0, 3), {"dimensions": 2}), ((1, 4), {"dimensions": 2, "graded": True})):
        cases.append(Case("monomial", f"monomial{args}{kw}", (lambda args=args, kw=kw: numpoly.monomial(*args, **kw)), "monomial",
                          None, None, (lambda Q: {"writes": [("int64", "int64")]}), table=("monomial", "int64", "-")))
    return cases


def rand_hp(rng, dt, shape, nterms=2, names=("q0",), wide=True, exps=None):
    size = int(numpy.prod(shape)) if shape else 1
    if exps is None:
        allexp = [tuple(e) for e in itertools.product(range(3), repeat=len(names))]
        exps = sorted(rng.sample(allexp, nterms))
    return HP(dt, shape, names, {e: to_array(sample_vals(rng, dt, size, wide), dt, shape) for e in exps})


def gen_astype(rng, tier):
    cases = []
    for s in DT:
        for d in DT:
            n = 4
            hp = HP(s, (n,), ("q0",), {(0,): to_array(cast_vals(rng, s, d, n), s), (2,): to_array(cast_vals(rng, s, d, n), s)})
            keys = [(), ((0, 2),)]
            cases.append(Case("astype", f"astype {s}->{d}", (lambda hp=hp, d=d: hp.build().astype(d)),
                              (lambda hp=hp, d=d: ("ok", d, hp.shape, {k: np_cast(a, d) for k, a in hp.canon().items()})),
                              (lambda o, s=s, d=d, hp=hp, keys=keys:
                               f"chk (astype Q {CQ[d]} (good {CQ[s]} {ccols(s, hp.cols(keys))})) {o[0]} {o[1]}"),
                              keys, (lambda Q, d=d: {"writes": [(d, d)]}), table=("astype", s, d)))
    return cases


def aligned_keys(*hps):
    ks = set()
    for h in hps:
        ks |= set(h.canon())
    return sorted(ks, key=lambda k: (len(k), k))


def expand(hp, shape):
    """The operand stretched to the broadcast shape (plain numpy)."""
    return HP(hp.dt, shape, hp.names, {e: numpy.broadcast_to(a, shape) for e, a in hp.terms.items()})


def mul_keys(x, y):
    """Result keys of x*y and, for each, the (i, j) column pairs in the order the kernel meets them.
    Columns are numbered in storage order of the built operands (order of HP.terms)."""
    ex, ey = list(x.terms), list(y.terms)
    order, pairs = [], {}
    for i, a in enumerate(ex):
        for j, b in enumerate(ey):
            k = mono_mul(mono(x.names, a), mono(y.names, b))
            if k not in pairs:
                pairs[k] = []
                order.append(k)
            pairs[k].append((i, j))
    return order, pairs


def storage_cols(hp):
    return [exact_list(hp.terms[e]) for e in hp.terms]


def expect_or_raise(fn):
    def exp():
        try:
            with warnings.catch_warnings():
                warnings.simplefilter("ignore")
                r = fn()
        except (TypeError, OverflowError) as exc:
            return ("raise", (type(exc).__name__,))
        return ("ok",) + tuple(r)
    return exp


def binop_case(op, x, y, table, kindname="binop"):
    """x op y for two harness polynomials of one name set (shapes may broadcast)."""
    shape = numpy.broadcast_shapes(x.shape, y.shape)
    b1, b2 = x.shape != shape, y.shape != shape
    xe, ye = expand(x, shape), expand(y, shape)
    n = int(numpy.prod(shape)) if shape else 1
    if op == "mul":
        run = (lambda: x.build() * y.build())
        exp = expect_or_raise(lambda: o_mul(x, y))
        order, pairs = mul_keys(x, y)

        def coq(o):
            ks = clist(clist(f"({i}%nat, {j}%nat)" for i, j in pairs[k]) for k in order)
            return (f"chk (multiply Q {n}%nat {ks} (good {CQ[x.dt]} {ccols(x.dt, storage_cols(xe))}) "
                    f"(good {CQ[y.dt]} {ccols(y.dt, storage_cols(ye))})) {o[0]} {o[1]}")
        keys = order
        pd = rt(x.dt, y.dt)
        tags = (lambda Q: {"mul": [pd], "writes": [(pd, pd)]})
    else:
        f = {"add": (lambda a, b: a + b), "sub": (lambda a, b: a - b)}[op]
        run = (lambda: f(x.build(), y.build()))
        exp = expect_or_raise(lambda: o_binop(op, x, y))
        keys = aligned_keys(x, y)

        def coq(o):
            m = (f"(dispatch2 Q {op.capitalize()} {core.cbool(b1)} {core.cbool(b2)} "
                 f"(good {CQ[x.dt]} {ccols(x.dt, xe.cols(keys))}) (good {CQ[y.dt]} {ccols(y.dt, ye.cols(keys))}))")
            return f"chk_opt {m} " + (f"(Some ({o[0]}, {o[1]}))" if o else "None")

        def tags(Q):
            d1, d2 = bdt(Q, x.dt, b1), bdt(Q, y.dt, b2)
            pd = rt(d1, d2)
            return {"writes": [(d1, d1), (d2, d2), (pd, pd)], "bcast": ([x.dt] if b1 else []) + ([y.dt] if b2 else [])}
    return Case(f"{kindname}:{op}", f"{x.dt}{x.shape} {op} {y.dt}{y.shape}", run, exp, coq, keys, tags, table=table)


def gen_binop(rng, tier):
    cases = []
    for a in DT:
        for b in DT:
            for op in ("add", "sub", "mul"):
                # small exact values (no float rounding), same shape, overlapping term sets
                x = rand_hp(rng, a, (3,), exps=[(0,), (1,)], wide=False)
                y = rand_hp(rng, b, (3,), exps=[(1,), (2,)], wide=False)
                cases.append(binop_case(op, x, y, ("arith-" + op, a, b)))
            # wrap-around / boundary values for integer pairs, one broadcast operand
            wide = kind(rt(a, b)) in "biu"
            x = rand_hp(rng, a, (), exps=[(0,), (1,)], wide=wide)
            y = rand_hp(rng, b, (2, 2), exps=[(0,), (1,)], wide=wide)
            op = rng.choice(["add", "sub", "mul"])
            cases.append(binop_case(op, x, y, ("arith-bcast", a, b)))
            cases.append(binop_case("add", y, x, ("arith-bcast", b, a)))
    return cases


def scalar_case(op, x, sc, swap, table):
    """x op z / z op x for a Python scalar z."""
    n = x.size
    pyop = {"add": (lambda a, b: a + b), "sub": (lambda a, b: a - b), "mul": (lambda a, b: a * b)}[op]
    run = (lambda: pyop(sc.z, x.build())) if swap else (lambda: pyop(x.build(), sc.z))
    l, r = (sc, x) if swap else (x, sc)
    exp = expect_or_raise((lambda: o_mul(l, r)) if op == "mul" else (lambda: o_binop(op, l, r)))
    b = x.shape != ()
    if op == "mul":
        order, pairs = mul_keys(x, HP("int64", (), x.names, {(0,) * len(x.names): 0}))
        if swap:
            pairs = {k: [(j, i) for i, j in v] for k, v in pairs.items()}
        keys = order
        ks = clist(clist(f"({i}%nat, {j}%nat)" for i, j in pairs[k]) for k in order)

        def coq(o):
            px = f"(good {CQ[x.dt]} {ccols(x.dt, storage_cols(x))})"
            body = (f"multiply Q {n}%nat {ks} " + (f"(good sd [scol sd]) {px}" if swap else f"{px} (good sd [scol sd])"))
            m = (f"(match scalar_dtype Q {CQ[x.dt]} {sc.pykind} {cz(sc.exact())} with Some sd => Some ({body}) | None => None end)")
            return f"let scol := (fun d => repeat (cast d (scalar_value {sc.pykind} {cz(sc.exact())})) {n}%nat) in chk_opt {m} " + (f"(Some ({o[0]}, {o[1]}))" if o else "None")

        def tags(Q):
            pd = rt(x.dt, sdt(Q, x.dt, sc)) if not _overflow(x.dt, sc, Q) else x.dt
            return {"mul": [pd], "writes": [(pd, pd)], "scalar": (x.dt, sc)}
    else:
        keys = aligned_keys(x, HP("int64", (), x.names, {(0,) * len(x.names): 0}))
        ci = keys.index(())

        def coq(o):
            px = f"(good {CQ[x.dt]} {ccols(x.dt, x.cols(keys))})"
            scols = "[" + "; ".join(("scol sd" if i == ci else f"repeat (zero sd) {n}%nat") for i in range(len(keys))) + "]"
            ps = f"(good sd {scols})"
            args = (f"{core.cbool(b)} false {ps} {px}" if swap else f"false {core.cbool(b)} {px} {ps}")
            m = (f"(match scalar_dtype Q {CQ[x.dt]} {sc.pykind} {cz(sc.exact())} with "
                 f"Some sd => dispatch2 Q {op.capitalize()} {args} | None => None end)")
            return (f"let scol := (fun d => repeat (cast d (scalar_value {sc.pykind} {cz(sc.exact())})) {n}%nat) in chk_opt {m} "
                    + (f"(Some ({o[0]}, {o[1]}))" if o else "None"))

        def tags(Q):
            if _overflow(x.dt, sc, Q):
                return {"scalar": (x.dt, sc)}
            d2 = bdt(Q, sdt(Q, x.dt, sc), b)
            pd = rt(x.dt, d2)
            return {"writes": [(x.dt, x.dt), (d2, d2), (pd, pd)], "bcast": [sdt(Q, x.dt, sc)] if b else [], "scalar": (x.dt, sc)}
    txt = f"{sc.z!r} {op} {x.dt}{x.shape}" if swap else f"{x.dt}{x.shape} {op} {sc.z!r}"
    return Case(f"scalar:{op}", txt, run, exp, coq, keys, tags, table=table)


def _overflow(d, sc, Q):
    if Q["strong_scalars"]:
        return False
    try:
        numpy.zeros(1, dtype=d) + sc.z
    except OverflowError:
        return True
    return False


def gen_scalar(rng, tier):
    cases = []
    for d in DT:
        for z in (2, -3, 0, 300, 2.0, 2j, True):
            for op in ("add", "sub", "mul"):
                for shape in ((), (3,)):
                    x = rand_hp(rng, d, shape, exps=[(0,), (1,)], wide=False)
                    swap = rng.random() < 0.4
                    cases.append(scalar_case(op, x, PyScalar(z), swap, ("scalar-" + type(z).__name__, d, op)))
    return cases


def gen_power(rng, tier):
    cases = []
    for d in DT:
        for e in (0, 1, 2, 3):
            # single term: also goes to the model
            x = rand_hp(rng, d, (3,), exps=[(1,)], wide=kind(d) in "iu")
            n = 3
            cases.append(Case("power", f"({d} c*q0)**{e}", (lambda x=x, e=e: x.build() ** e), expect_or_raise(lambda x=x, e=e: o_pow(x, e)),
                              (lambda o, x=x, e=e, n=n: f"chk (power1 Q {n}%nat {e}%nat (good {CQ[x.dt]} {ccols(x.dt, storage_cols(x))})) {o[0]} {o[1]}"),
                              [((0, e),)] if e else [()],
                              (lambda Q, d=d: {"writes": [(d, d)], "mul": [d]}), table=("power", d, str(e))))
            y = rand_hp(rng, d, (2,), exps=[(0,), (1,)], wide=False)
            cases.append(Case("power", f"({d} a+b*q0)**{e}", (lambda y=y, e=e: y.build() ** e), expect_or_raise(lambda y=y, e=e: o_pow(y, e)),
                              None, None, (lambda Q, d=d: {"writes": [(d, d)], "mul": [d]}), table=("power2", d, str(e))))
    return cases


def ix_of(shape, fn):
    """Flat source index of every output element of a re-arranging numpy function."""
    n = int(numpy.prod(shape)) if shape else 1
    return numpy.asarray(fn(numpy.arange(n).reshape(shape))).reshape(-1).tolist()


def gen_index(rng, tier):
    cases = []
    idxs = [("[0]", lambda a: a[0]), ("[1:]", lambda a: a[1:]), ("[::-1]", lambda a: a[::-1]), ("[[0,2]]", lambda a: a[[0, 2]]),
            ("[0:0]", lambda a: a[0:0]), ("[...,None]", lambda a: a[..., None]), ("[mask]", lambda a: a[numpy.array([True, False, True])]),
            ("[-1]", lambda a: a[-1])]
    idx2 = [("[0,1]", lambda a: a[0, 1]), ("[:,0]", lambda a: a[:, 0]), ("[1]", lambda a: a[1]), ("[:,::2]", lambda a: a[:, ::2])]
    for d in DT:
        for shape, lst in (((3,), idxs), ((2, 3), idx2)):
            for name, fn in lst:
                hp = rand_hp(rng, d, shape, exps=[(0,), (1,)])
                keys = [(), ((0, 1),)]
                ix = ix_of(shape, fn)
                empty = len(ix) == 0
                cases.append(Case("index", f"{d}{shape}{name}", (lambda hp=hp, fn=fn: fn(hp.build())),
                                  expect_or_raise(lambda hp=hp, fn=fn: o_map(hp, fn)),
                                  (lambda o, hp=hp, ix=ix, keys=keys:
                                   f"chk (reindex Q true {cnats(ix)} (good {CQ[hp.dt]} {ccols(hp.dt, hp.cols(keys))})) {o[0]} {o[1]}"),
                                  keys, (lambda Q, d=d, empty=empty: {"writes": [(d, d)]}), table=("index", d, name)))
        # iteration
        hp = rand_hp(rng, d, (3,), exps=[(0,), (2,)])
        cases.append(Case("index", f"list(iter({d}(3,)))[1]", (lambda hp=hp: list(hp.build())[1]),
                          expect_or_raise(lambda hp=hp: o_map(hp, lambda a: a[1])),
                          (lambda o, hp=hp: f"chk (reindex Q true [1%nat] (good {CQ[hp.dt]} {ccols(hp.dt, hp.cols([(), ((0, 2),)]))})) {o[0]} {o[1]}"),
                          [(), ((0, 2),)], (lambda Q, d=d: {"writes": [(d, d)]}), table=("index", d, "iter")))
    return cases


SHAPE1 = [
    ("reshape", (2, 3), lambda m, a: m.reshape(a, (3, 2))),
    ("reshape-method", (2, 3), lambda m, a: a.reshape(6)),
    ("transpose", (2, 3), lambda m, a: m.transpose(a)),
    (".T", (2, 3), lambda m, a: a.T),
    ("ravel", (2, 2), lambda m, a: a.ravel()),
    ("flatten", (2, 2), lambda m, a: a.flatten()),
    ("repeat", (3,), lambda m, a: m.repeat(a, 2)),
    ("tile", (2,), lambda m, a: m.tile(a, 2)),
    ("expand_dims", (3,), lambda m, a: m.expand_dims(a, 0)),
    ("moveaxis", (2, 3), lambda m, a: m.moveaxis(a, 0, 1)),
    ("atleast_2d", (3,), lambda m, a: m.atleast_2d(a)),
    ("atleast_3d", (), lambda m, a: m.atleast_3d(a)),
    ("split[1]", (4,), lambda m, a: m.split(a, 2)[1]),
    ("array_split[0]", (3,), lambda m, a: m.array_split(a, 2)[0]),
    ("hsplit[0]", (2, 2), lambda m, a: m.hsplit(a, 2)[0]),
    ("vsplit[1]", (2, 2), lambda m, a: m.vsplit(a, 2)[1]),
    ("diagonal", (2, 2), lambda m, a: m.diagonal(a)),
    ("diag", (3,), lambda m, a: m.diag(a)),
    ("copy", (3,), lambda m, a: a.copy()),
    ("positive", (3,), lambda m, a: m.positive(a) if kind(str(a.dtype)) != "b" else a.copy()),
    ("full_like", (3,), lambda m, a: m.full_like(a, 1)),
    ("zeros_like", (3,), lambda m, a: m.zeros_like(a)),
    ("ones_like", (3,), lambda m, a: m.ones_like(a)),
    ("broadcast_arrays[0]", (3,), lambda m, a: m.broadcast_arrays(a, numpy.zeros((2, 3), dtype=bool) if m is numpy else numpy.zeros((2, 3), dtype=bool))[0]),
]


def gen_shape1(rng, tier):
    cases = []
    for d in DT:
        for name, shape, fn in SHAPE1:
            hp = rand_hp(rng, d, shape, exps=[(0,), (1,)])
            keys = [(), ((0, 1),)]
            rearr = name not in ("diag", "full_like", "zeros_like", "ones_like", "positive")
            raw = name in ("reshape-method", ".T", "ravel", "flatten", "copy")
            coq = None
            if rearr:
                ix = ix_of(shape, lambda a, fn=fn: fn(numpy, a))
                mf = "raw_view" if raw else "reindex Q false"
                coq = (lambda o, hp=hp, ix=ix, keys=keys, mf=mf:
                       f"chk ({mf} {cnats(ix)} (good {CQ[hp.dt]} {ccols(hp.dt, hp.cols(keys))})) {o[0]} {o[1]}")
            if name in ("full_like", "ones_like"):
                exp = expect_or_raise(lambda hp=hp, fn=fn: (hp.dt, hp.shape, {(): fn(numpy, numpy.zeros(hp.shape, dtype=hp.dt))}))
            else:
                exp = expect_or_raise(lambda hp=hp, fn=fn: o_map(hp, lambda a: fn(numpy, a)))
            cases.append(Case("shape1:" + name, f"{name}({d}{shape})", (lambda hp=hp, fn=fn: fn(numpoly, hp.build())), exp,
                              coq, keys, (lambda Q, d=d, raw=raw: {"writes": [] if raw else [(d, d)]}), table=("shape", d, name)))
    return cases


SHAPE2 = [
    ("concatenate", (2,), (3,), lambda m, a, b: m.concatenate([a, b])),
    ("stack", (2,), (2,), lambda m, a, b: m.stack([a, b])),
    ("vstack", (2,), (2,), lambda m, a, b: m.vstack([a, b])),
    ("hstack", (2,), (1,), lambda m, a, b: m.hstack([a, b])),
    ("dstack", (2,), (2,), lambda m, a, b: m.dstack([a, b])),
    ("where", (3,), (3,), lambda m, a, b: m.where(numpy.array([True, False, True]), a, b)),
]


def gen_shape2(rng, tier):
    cases = []
    for a in DT:
        for b in DT:
            picks = SHAPE2 if (tier == "thorough" or a == b) else [SHAPE2[0], SHAPE2[5], rng.choice(SHAPE2[1:5])]
            for name, s1, s2, fn in picks:
                x = rand_hp(rng, a, s1, exps=[(0,), (1,)])
                y = rand_hp(rng, b, s2, exps=[(1,), (2,)])
                keys = aligned_keys(x, y)
                n1 = x.size
                sel = numpy.asarray(fn(numpy, numpy.arange(n1).reshape(s1), n1 + numpy.arange(y.size).reshape(s2))).reshape(-1).tolist()
                selc = clist(f"({core.cbool(i < n1)}, {i if i < n1 else i - n1}%nat)" for i in sel)
                cases.append(Case("shape2:" + name, f"{name}({a}{s1}, {b}{s2})",
                                  (lambda x=x, y=y, fn=fn: fn(numpoly, x.build(), y.build())),
                                  expect_or_raise(lambda x=x, y=y, fn=fn: o_map2(x, y, lambda p, q: fn(numpy, p, q))),
                                  (lambda o, x=x, y=y, keys=keys, selc=selc:
                                   f"chk (select2 Q {selc} (good {CQ[x.dt]} {ccols(x.dt, x.cols(keys))}) "
                                   f"(good {CQ[y.dt]} {ccols(y.dt, y.cols(keys))})) {o[0]} {o[1]}"),
                                  keys, (lambda Q, a=a, b=b: {"writes": [(a, a), (b, b), (rt(a, b), rt(a, b))]}),
                                  table=("shape2-" + name, a, b)))
    return cases


def derived_case(kindname, desc, hp, run, npfn, re, table, keys=None):
    keys = keys or sorted(hp.canon(), key=lambda k: (len(k), k))
    exp = expect_or_raise(lambda: o_map(hp, npfn))

    def coq(o):
        r = exp()
        if r[0] != "ok":
            return None
        rd = r[1]
        cols = [exact_list(r[3][k]) for k in keys]
        return (f"chk (derived Q {core.cbool(re)} (good {CQ[hp.dt]} {ccols(hp.dt, hp.cols(keys))}) {CQ[rd]} {ccols(rd, cols)}) {o[0]} {o[1]}")

    def tags(Q):
        r = exp()
        rd = r[1] if r[0] == "ok" else hp.dt
        return {"writes": ([(hp.dt, hp.dt)] if re else []) + [(rd, rd)]}
    return Case(kindname, desc, run, exp, coq, keys, tags, table=table)


def gen_derived(rng, tier):
    cases = []
    for d in DT:
        hp = rand_hp(rng, d, (4,), exps=[(0,), (1,)])
        cases.append(derived_case("diff", f"diff({d}(4,))", hp, (lambda hp=hp: numpoly.diff(hp.build())), numpy.diff, False, ("diff", d, "n=1")))
        hp = rand_hp(rng, d, (2, 3), exps=[(0,), (1,)])
        cases.append(derived_case("diff", f"diff({d}(2,3), axis=0)", hp, (lambda hp=hp: numpoly.diff(hp.build(), axis=0)),
                                  (lambda a: numpy.diff(a, axis=0)), False, ("diff", d, "axis=0")))
        hp = rand_hp(rng, d, (4,), exps=[(0,), (1,)], wide=False)
        cases.append(derived_case("diff", f"diff({d}(4,), n=2)", hp, (lambda hp=hp: numpoly.diff(hp.build(), n=2)),
                                  (lambda a: numpy.diff(a, n=2)), False, ("diff", d, "n=2")))
        # a term whose coefficient is the same all along the differenced axis: its differences vanish, the result still has
        # to be computed (zeros written), not left as the buffer was allocated
        base = rand_hp(rng, d, (4,), exps=[(0,), (1,), (2,)])
        same = numpy.asarray(base.terms[(1,)]).ravel()[0]
        hp = HP(d, (4,), ("q0",), {(0,): base.terms[(0,)], (1,): numpy.full((4,), same, dtype=d), (2,): numpy.full((4,), same, dtype=d)})
        cases.append(derived_case("diff", f"diff({d}(4,)) with constant terms", hp, (lambda hp=hp: numpoly.diff(hp.build())), numpy.diff, False,
                                  ("diff", d, "cancel")))
        hp = rand_hp(rng, d, (2, 2), exps=[(0,), (1,)])
        cases.append(derived_case("ediff1d", f"ediff1d({d}(2,2))", hp, (lambda hp=hp: numpoly.ediff1d(hp.build())), numpy.ediff1d, True,
                                  ("ediff1d", d, "-")))
        # ediff1d with to_begin / to_end of ANOTHER dtype (values that cast safely): numpy keeps the array's dtype and so
        # must every coefficient (the constant term takes to_begin / to_end, the other terms a zero there)
        hp = rand_hp(rng, d, (4,), exps=[(0,), (1,)], wide=False)
        for tb_dt, te_dt in (("int8", None), ("bool", None), ("uint8", "int8"), (None, "int8")):
            tb = numpy.dtype(tb_dt).type(1) if tb_dt else None
            te = numpy.dtype(te_dt).type(1) if te_dt else None
            kw = {k: v for k, v in (("to_begin", tb), ("to_end", te)) if v is not None}
            if not all(numpy.can_cast(numpy.asarray(v).dtype, numpy.dtype(d), casting="same_kind") for v in kw.values()):
                continue        # numpy refuses these (TypeError): the property says nothing about them

            def npfn_for(key, kw=kw):
                zero = {k: numpy.zeros((), dtype=numpy.asarray(v).dtype) for k, v in kw.items()}
                return lambda a, key=key: numpy.ediff1d(a, **(kw if key == () else zero))

            def exp_fn(hp=hp, npfn_for=npfn_for):
                out = {k: numpy.asarray(npfn_for(k)(a)) for k, a in hp.canon().items()}
                any_ = next(iter(out.values()))
                return str(any_.dtype), tuple(any_.shape), out
            cases.append(Case("ediff1d", f"ediff1d({d}(4,), {', '.join(f'{k}={numpy.asarray(v).dtype}(1)' for k, v in kw.items())})",
                              (lambda hp=hp, kw=kw: numpoly.ediff1d(hp.build(), **kw)), expect_or_raise(exp_fn), None,
                              sorted(hp.canon(), key=lambda k: (len(k), k)), (lambda Q, d=d: {"writes": [(d, d)]}),
                              table=("ediff1d-to", d, f"{tb_dt}/{te_dt}")))
        hp = rand_hp(rng, d, (3,), exps=[(0,), (1,)], wide=False)
        cases.append(derived_case("negative", f"-({d}(3,))", hp, (lambda hp=hp: -hp.build()), numpy.negative, True, ("negative", d, "-")))
        cases.append(derived_case("cumsum", f"cumsum({d}(3,))", hp, (lambda hp=hp: numpoly.cumsum(hp.build())), numpy.cumsum, True, ("cumsum", d, "-")))
        cases.append(derived_case("sum", f"sum({d}(3,))", hp, (lambda hp=hp: numpoly.sum(hp.build())), numpy.sum, True, ("sum", d, "all")))
        hp2 = rand_hp(rng, d, (2, 3), exps=[(0,), (1,)], wide=False)
        groups = [[0, 3], [1, 4], [2, 5]]
        cases.append(Case("sum", f"sum({d}(2,3), axis=0)", (lambda hp2=hp2: numpoly.sum(hp2.build(), axis=0)),
                          expect_or_raise(lambda hp2=hp2: o_map(hp2, lambda a: numpy.sum(a, axis=0))),
                          (lambda o, hp2=hp2, groups=groups:
                           f"chk (sum_groups Q {clist(cnats(g) for g in groups)} (good {CQ[hp2.dt]} {ccols(hp2.dt, hp2.cols([(), ((0, 1),)]))})) {o[0]} {o[1]}"),
                          [(), ((0, 1),)], (lambda Q, d=d: {"writes": [(d, d), (str(numpy.sum(numpy.zeros(1, dtype=d)).dtype),) * 2]}),
                          table=("sum", d, "axis=0")))
        # prod: defined by repeated multiply in the array's own dtype
        hp3 = rand_hp(rng, d, (3,), exps=[(1,)], wide=False)

        def oprod(hp3=hp3):
            a = hp3.terms[(1,)]
            return hp3.dt, (), {((0, 3),): numpy.multiply(numpy.multiply(a[0], a[1]), a[2])}
        cases.append(Case("prod", f"prod({d}(3,))", (lambda hp3=hp3: numpoly.prod(hp3.build())), expect_or_raise(oprod), None, None,
                          (lambda Q, d=d: {"writes": [(d, d)], "mul": [d]}), table=("prod", d, "-")))
    return cases


def gen_setdim(rng, tier):
    cases = []
    for d in DT:
        hp = rand_hp(rng, d, (2,), names=("q0", "q1"), exps=[(0, 0), (1, 0), (1, 1)])
        # up: one more indeterminate, same terms
        cases.append(Case("set_dimensions", f"set_dimensions({d}, 3)", (lambda hp=hp: numpoly.set_dimensions(hp.build(), 3)),
                          (lambda hp=hp: ("ok", hp.dt, hp.shape, hp.canon())),
                          (lambda o, hp=hp: f"chk (rebuild Q (Some {CQ[hp.dt]}) (good {CQ[hp.dt]} {ccols(hp.dt, hp.cols(sorted(hp.canon(), key=lambda k: (len(k), k))))})) {o[0]} {o[1]}"),
                          sorted(hp.canon(), key=lambda k: (len(k), k)), (lambda Q, d=d: {"writes": [(d, d)]}), table=("set_dimensions", d, "up")))
        kept = {k: a for k, a in hp.canon().items() if all(v < 1 for v, _ in k)}
        ks = sorted(kept, key=lambda k: (len(k), k))
        cases.append(Case("set_dimensions", f"set_dimensions({d}, 1)", (lambda hp=hp: numpoly.set_dimensions(hp.build(), 1)),
                          (lambda hp=hp, kept=kept: ("ok", hp.dt, hp.shape, kept)),
                          (lambda o, hp=hp, ks=ks: f"chk (rebuild Q (Some {CQ[hp.dt]}) (good {CQ[hp.dt]} {ccols(hp.dt, hp.cols(ks))})) {o[0]} {o[1]}"),
                          ks, (lambda Q, d=d: {"writes": [(d, d)]}), table=("set_dimensions", d, "down")))
        hz = rand_hp(rng, d, (2,), names=("q0", "q1"), exps=[(1, 1), (0, 2)])
        cases.append(Case("set_dimensions", f"set_dimensions({d} all terms dropped, 1)", (lambda hz=hz: numpoly.set_dimensions(hz.build(), 1)),
                          (lambda hz=hz: ("ok", hz.dt, hz.shape, {})),
                          (lambda o, hz=hz: f"chk (rebuild Q (Some {CQ[hz.dt]}) (good {CQ[hz.dt]} [[VZ 0; VZ 0]])) {o[0]} {o[1]}"),
                          [()], (lambda Q, d=d: {"writes": [(d, d)]}), table=("set_dimensions", d, "all-dropped")))
    return cases


def with_tags(case, **extra):
    old = case.tags
    case.tags = (lambda Q, old=old: {**old(Q), **extra})
    return case


def gen_cancel(rng, tier):
    cases = []
    for d in DT:
        x = rand_hp(rng, d, (3,), exps=[(0,), (1,)])
        c = binop_case("sub", x, x, ("cancel", d, "p-p"), kindname="cancel")
        cases.append(c)
        zero = HP(d, (3,), ("q0",), {(0,): numpy.zeros(3, dtype=d), (2,): numpy.zeros(3, dtype=d)})
        cases.append(binop_case("mul", x, zero, ("cancel", d, "p*0poly"), kindname="cancel"))
        cases.append(binop_case("add", zero, zero, ("cancel", d, "0+0"), kindname="cancel"))
        cases.append(scalar_case("mul", x, PyScalar(0), False, ("cancel", d, "p*0")))
        keys = [(), ((0, 1),)]
        cases.append(Case("cancel:poly-of-zero", f"polynomial(zero {d} polynomial with 2 stored terms)",
                          (lambda zero=zero: numpoly.polynomial(zero.build())), (lambda zero=zero: ("ok", zero.dt, zero.shape, {})),
                          (lambda o, zero=zero: f"chk (rebuild Q None (good {CQ[zero.dt]} [[VZ 0; VZ 0; VZ 0]])) {o[0]} {o[1]}"),
                          [()], (lambda Q, d=d: {"writes": [(d, d)]}), table=("cancel", d, "poly(0)")))
    return cases


def gen_empty(rng, tier):
    cases = []
    for d in [None] + DT:
        fd = d or "int64"
        for exps in ([[0]], [[0], [1]]):
            cases.append(Case("empty:coefficients", f"polynomial_from_attributes({exps}, [], dtype={d})",
                              (lambda exps=exps, d=d: numpoly.polynomial_from_attributes(exps, [], dtype=d)),
                              (lambda fd=fd: ("ok", fd, (), {})),
                              (lambda o, d=d, exps=exps: f"chk (from_attributes Q {copt(d)} {len(exps)}%nat []) {o[0]} {o[1]}"),
                              [(), ((0, 1),)][:len(exps)], (lambda Q, fd=fd: {"empty": True, "writes": [(fd, fd)]}),
                              table=("empty", d or "-", str(len(exps)))))
    cases.append(Case("size0:list", "polynomial([])", (lambda: numpoly.polynomial([])), "size0-any-dtype", None, None,
                      (lambda Q: {"size0": True}), table=("size0", "-", "polynomial([])")))
    cases.append(Case("size0:list", "polynomial([]) + 1", (lambda: numpoly.polynomial([]) + 1), "size0-any-dtype", None, None,
                      (lambda Q: {"size0": True}), table=("size0", "-", "polynomial([])+1")))
    for d in DT:
        z = HP(d, (0, 3), ("q0",), {(0,): numpy.zeros((0, 3), dtype=d)})
        zz = HP(d, (0,), ("q0",), {(0,): numpy.zeros((0,), dtype=d), (1,): numpy.zeros((0,), dtype=d)})
        arr = numpy.zeros((0, 3), dtype=d)
        cases.append(Case("size0:construct", f"polynomial(zeros((0,3), {d}))", (lambda arr=arr: numpoly.polynomial(arr)),
                          (lambda arr=arr, d=d: ("ok", d, (0, 3), {})),
                          (lambda o, d=d: f"chk (construct Q {CQ[d]} None [[]]) {o[0]} {o[1]}"), [()],
                          (lambda Q, d=d: {"size0": True, "writes": [(d, d)]}), table=("size0", d, "construct")))
        cases.append(with_tags(scalar_case("add", zz, PyScalar(1), False, ("size0", d, "+1")), size0=True))
        cases.append(with_tags(scalar_case("mul", zz, PyScalar(2), False, ("size0", d, "*2")), size0=True))
        cases.append(with_tags(binop_case("sub", zz, zz, ("size0", d, "z-z")), size0=True))
        cases.append(with_tags(binop_case("mul", zz, rand_hp(rng, d, (), exps=[(1,)], wide=False), ("size0", d, "z*p")), size0=True))
        for d2 in (("int64", "float32", d) if tier == "quick" else DT):
            cases.append(Case("size0:astype", f"zeros((0,3),{d}).astype({d2})", (lambda z=z, d2=d2: z.build().astype(d2)),
                              (lambda d2=d2: ("ok", d2, (0, 3), {})),
                              (lambda o, d=d, d2=d2: f"chk (astype Q {CQ[d2]} (good {CQ[d]} [[]])) {o[0]} {o[1]}"), [()],
                              (lambda Q, d2=d2: {"size0": True, "writes": [(d2, d2)]}), table=("size0-astype", d, d2)))
        for name, fn, shape in (("[0:0]", lambda m, a: a[0:0], (0, 3)), ("[:,1]", lambda m, a: a[:, 1], (0,)),
                                ("reshape", lambda m, a: m.reshape(a, (3, 0)), (3, 0)), (".T", lambda m, a: a.T, (3, 0)),
                                ("sum(axis=0)", lambda m, a: m.sum(a, axis=0), (3,)), ("sum", lambda m, a: m.sum(a), ()),
                                ("polynomial()", lambda m, a: a.copy() if m is numpy else numpoly.polynomial(a), (0, 3)),
                                ("concatenate", lambda m, a: m.concatenate([a, a]), (0, 3)),
                                ("negative", lambda m, a: (m.negative(a) if kind(str(a.dtype)) != "b" else a.copy()), (0, 3))):
            via = name in ("[0:0]", "[:,1]", "polynomial()")
            coq = None
            if name in ("[0:0]", "[:,1]", "reshape"):
                coq = (lambda o, d=d, via=via: f"chk (reindex Q {core.cbool(via)} [] (good {CQ[d]} [[]])) {o[0]} {o[1]}")
            if name == ".T":
                coq = (lambda o, d=d: f"chk (raw_view [] (good {CQ[d]} [[]])) {o[0]} {o[1]}")
            exp0 = expect_or_raise(lambda z=z, fn=fn: o_map(z, lambda a: fn(numpy, a)))
            r0 = exp0()
            rd = r0[1] if r0[0] == "ok" else d
            cases.append(Case("size0:" + name, f"{name} of zeros((0,3),{d})", (lambda z=z, fn=fn: fn(numpoly, z.build())),
                              exp0, coq, [()],
                              (lambda Q, d=d, rd=rd: {"size0": True, "writes": [(d, d), (rd, rd)]}), table=("size0", d, name)))
        m3 = HP(d, (3,), ("q0",), {(0,): to_array(sample_vals(rng, d, 3), d), (1,): to_array(sample_vals(rng, d, 3), d)})
        cases.append(Case("size0:mask", f"{d}(3,)[all-False mask]", (lambda m3=m3: m3.build()[numpy.zeros(3, dtype=bool)]),
                          (lambda d=d: ("ok", d, (0,), {})),
                          (lambda o, d=d, m3=m3: f"chk (reindex Q true [] (good {CQ[d]} {ccols(d, m3.cols([(), ((0, 1),)]))})) {o[0]} {o[1]}"),
                          [(), ((0, 1),)], (lambda Q, d=d: {"size0": True, "writes": [(d, d)]}), table=("size0", d, "mask")))
    return cases


def gen_random(rng, tier, n):
    cases = []
    for _ in range(n):
        a, b = rng.choice(DT), rng.choice(DT)
        names = rng.choice([("q0",), ("q0", "q1"), ("q1", "q3")])
        full = rng.choice([(), (2,), (3,), (2, 2), (1, 3)])
        s1 = full if rng.random() < 0.6 else rng.choice([(), full[-1:]])
        s2 = full if s1 != full or rng.random() < 0.7 else ()
        wide = kind(rt(a, b)) in "biu" and rng.random() < 0.5
        x = rand_hp(rng, a, s1, nterms=rng.randint(1, 3), names=names, wide=wide)
        y = rand_hp(rng, b, s2, nterms=rng.randint(1, 3), names=names, wide=wide)
        op = rng.choice(["add", "sub", "mul"])
        cases.append(binop_case(op, x, y, None, kindname="random"))
    return cases


# ----------------------------------------------------------------------------------------------
# defect switches: recorded witnesses replayed on the tree under test
# ----------------------------------------------------------------------------------------------
WITNESSES = {
    "kernel_only": "numpoly.polynomial(numpy.array([1, 2, 3], dtype='int32')) has coefficients [1, 2, 3]",
    "no_cast": "numpoly.polynomial(numpy.array([1, 2, 3]), dtype=float) has coefficients [1.0, 2.0, 3.0]",
    "mul_kernel_only": "numpoly.multiply(2*q0, 3*q0, out=<int32 buffer>) (int32 operands) writes 6 for q0**2",
    "empty_unwritten": "numpoly.polynomial_from_attributes([[0]], []) is the zero polynomial",
    "size0_scalar": "numpoly.polynomial(numpy.zeros((0, 3))).coefficients keeps one (0, 3) array per term",
    "bcast_int": "polynomial(uint32 scalar) + polynomial(uint32 array of shape (2,)) has dtype uint32",
    "strong_scalars": "polynomial(numpy.uint32(5)) + 1 has dtype uint32",
}


def detect_switches():
    """True = the defect is present.  Each witness is the recorded failing input of a finding."""
    Q = {}

    def bad(fn):
        try:
            with warnings.catch_warnings():
                warnings.simplefilter("ignore")
                return not bool(fn())
        except Exception:  # noqa: BLE001
            return True
    Q["kernel_only"] = bad(lambda: numpy.asarray(numpoly.polynomial(numpy.array([1, 2, 3], dtype="int32")).coefficients[0]).tolist() == [1, 2, 3])
    Q["no_cast"] = bad(lambda: numpy.asarray(numpoly.polynomial(numpy.array([1, 2, 3]), dtype=float).coefficients[0]).tolist() == [1.0, 2.0, 3.0])

    def mulw():
        x = HP("int32", (2,), ("q0",), {(1,): [2, 2]}).build()
        y = HP("int32", (2,), ("q0",), {(1,): [3, 3]}).build()
        out = numpoly.ndpoly(exponents=[(2,)], shape=(2,), names=("q0",), dtype="int32")
        numpoly.multiply(x, y, out=out)
        return numpy.asarray(out.values[out.keys[0]]).tolist() == [6, 6]
    Q["mul_kernel_only"] = bad(mulw)

    def emptyw():
        p = numpoly.polynomial_from_attributes([[0]], [])
        return p.shape == () and numpy.asarray(p.values[p.keys[0]]).item() == 0
    Q["empty_unwritten"] = bad(emptyw)
    Q["size0_scalar"] = bad(lambda: [c.shape for c in numpoly.polynomial(numpy.zeros((0, 3))).coefficients] == [(0, 3)])
    u1 = HP("uint32", (), ("q0",), {(0,): 5})
    u2 = HP("uint32", (2,), ("q0",), {(0,): [1, 2]})
    Q["bcast_int"] = bad(lambda: str((u1.build() + u2.build()).dtype) == "uint32")
    Q["strong_scalars"] = bad(lambda: str((u1.build() + 1).dtype) == "uint32")
    return Q


# ----------------------------------------------------------------------------------------------
# running the cases
# ----------------------------------------------------------------------------------------------
def run_one(case):
    with warnings.catch_warnings():
        warnings.simplefilter("ignore")
        raised, r = None, None
        try:
            r = case.run()
        except Exception as exc:  # noqa: BLE001
            raised = f"{type(exc).__name__}: {str(exc)[:120]}"
        if case.expect == "monomial":
            if raised:
                return {"fail": ("raise", raised), "coq": None}
            ob = observe(r)
            for k, (arr, ex, pois) in ob["terms"].items():
                if any(pois) or any(v not in (0, 1) for v in ex):
                    return {"fail": ("poison" if any(pois) else "value", f"coefficient of {show_mono(k)}: {ex}"), "coq": None}
            return {"fail": None, "coq": None}
        if case.expect == "size0-any-dtype":
            if raised:
                return {"fail": ("raise", raised), "coq": None}
            ob = observe(r)
            if tuple(ob["shape"]) != (0,):
                pois = any(any(p) for _, _, p in ob["terms"].values())
                return {"fail": ("poison" if pois else "shape", f"shape {ob['shape']} (numpy: (0,)), coefficients "
                                 f"{[ex for _, ex, _ in ob['terms'].values()]}"), "coq": None}
            return {"fail": None, "coq": None}
        exp = case.expect()
        if exp[0] == "raise":
            if raised and raised.split(":")[0] in exp[1]:
                return {"fail": None, "coq": case.coq(None) if case.coq else None}
            if raised:
                return {"fail": ("raise", f"raised {raised}, numpy raises {exp[1][0]}"), "coq": None}
            ob = observe(r)
            o = coq_obs(ob, case.keys) if case.coq and case.keys is not None else None
            return {"fail": ("no-raise", f"returned dtype {ob['dtype']} where numpy raises {exp[1][0]}"),
                    "coq": case.coq(o) if (case.coq and o and o[0]) else None}
        if raised:
            return {"fail": ("raise", f"raised {raised}; numpy returns dtype {exp[1]}"), "coq": None}
        ob = observe(r)
        fail = compare(ob, exp[1], exp[2], exp[3])
        coq = None
        if case.coq and case.keys is not None:
            o = coq_obs(ob, case.keys)
            if o[0]:
                coq = case.coq(o)
        return {"fail": fail, "coq": coq}


def risky(case, Q):
    """Does the case make the raw-byte kernel write a wider source into a narrower field (heap overrun)?"""
    if not Q["no_cast"]:
        return False
    return any(s in K5 and bits(s) > bits(f) for s, f in case.tags(Q).get("writes", []))


def run_chunk(cases, idx):
    import os
    try:                      # glibc reports heap corruption on stderr: keep the check's output readable
        os.dup2(os.open(os.devnull, os.O_WRONLY), 2)
    except OSError:
        pass
    install_poison()
    out = []
    for i in idx:
        try:
            res = run_one(cases[i])
        except Exception as exc:  # noqa: BLE001  (a defect of the check itself: reported as such)
            import traceback
            res = {"fail": ("harness", f"{type(exc).__name__}: {exc} :: {traceback.format_exc()[-400:]}"), "coq": None}
        res["i"] = i
        out.append(res)
    return out


def header(Q):
    sw = " ".join(core.cbool(Q[k]) for k in SWITCHES)
    return ("From Coq Require Import ZArith List Bool.\nFrom NP Require Import DType.\nImport ListNotations.\n"
            "Open Scope Z_scope.\n"
            f"(* defect switches found on the tree under test: {', '.join(k for k in SWITCHES if Q[k]) or 'none'} *)\n"
            f"Definition Q : quirks := mkQ {sw}.\n")


def all_cases(rng, tier):
    cases = []
    for g in (gen_construct, gen_symbols, gen_astype, gen_binop, gen_scalar, gen_power, gen_index, gen_shape1, gen_shape2,
              gen_derived, gen_setdim, gen_cancel, gen_empty):
        cases += g(rng, tier)
    cases += gen_random(rng, tier, 300 if tier == "quick" else 40000)
    return cases


def run(report, tier, seed):
    tr_ok, info = True, None
    if dtype_tr is not None:
        try:
            info = dtype_tr.generate(core.REPO, core.COQ)
        except Exception as exc:  # noqa: BLE001
            tr_ok = False
            report.notes.append(f"translator failed: {type(exc).__name__}: {exc}")
    else:
        tr_ok = False
        report.notes.append("translator module missing")
    ok = core.prove(report, TARGETS if tr_ok else [t for t in TARGETS if not t.startswith("Bridge/")]) and tr_ok
    install_poison()
    Q = detect_switches()
    SCALARS_STRONG[0] = bool(Q["strong_scalars"])
    report.coverage["python_scalars_typed"] = "strong (numpoly.polynomial(z))" if Q["strong_scalars"] else "weak (NEP 50)"
    rng = core.rng_for(seed, "C12")
    cases = all_cases(rng, tier)
    results = [None] * len(cases)
    died = []
    alone = [i for i, c in enumerate(cases) if risky(c, Q)]       # heap overruns: one process each
    rest = [i for i in range(len(cases)) if i not in set(alone)]
    groups = [rest[k:k + 400] for k in range(0, len(rest), 400)] + [[i] for i in alone]
    for grp in groups:
        st, val = core.forked(run_chunk, cases, grp, timeout=600)
        if st == "ok":
            for r in val:
                results[r["i"]] = r
            continue
        for i in grp:                            # the interpreter died / hung: find the case
            st1, val1 = (st, val) if len(grp) == 1 else core.forked(run_chunk, cases, [i], timeout=60)
            if st1 == "ok":
                results[i] = val1[0]
            else:
                results[i] = {"i": i, "fail": ("crash", f"the interpreter {st1} (status {val1}) while running the case"), "coq": None}
                died.append(i)

    cc = core.CoqCases("C12", header(Q), shard=250)
    coq_index = []
    for r in results:
        if r["coq"]:
            cc.add(r["coq"], {"case": cases[r["i"]].desc, "kind": cases[r["i"]].kind})
            coq_index.append(r["i"])
    failed, errors = cc.run()
    disagree = {coq_index[j] for j in failed}

    # ---- classification -----------------------------------------------------------------------
    tables, kinds, fails_by_key = {}, {}, {}
    unexplained = []
    for r in results:
        c = cases[r["i"]]
        kinds[c.kind.split(":")[0]] = kinds.get(c.kind.split(":")[0], 0) + 1
        if c.table:
            tables.setdefault(c.table[0], set()).add(c.table[1:])
        if not r["fail"]:
            continue
        keys = explain(c.tags(Q), Q) if r["fail"][0] != "harness" else []
        text = f"{c.desc}: {r['fail'][1]}"
        if keys and r["i"] not in disagree:
            fails_by_key.setdefault(keys[0], []).append((r["i"], r["fail"][0], text))
        else:
            unexplained.append((r["i"], r["fail"][0], text, keys))
    fails_count = {k: len(v) for k, v in fails_by_key.items()}
    for sw in SWITCHES:                 # every defect whose recorded witness still fails on this tree
        if sw == "strong_scalars":       # not a defect under the property's wording (see SCALARS_STRONG)
            fails_by_key.pop(KEYS[sw], None)
            continue
        key = KEYS[sw]
        lst = fails_by_key.pop(key, [])
        if not Q[sw] and not lst:
            continue
        kf = report.match_known(key)
        cats = sorted({c for _, c, _ in lst})
        eg = f"{len(lst)} failing cases attributed ({', '.join(cats)}), e.g. {lst[0][2][:200]}" if lst else \
            "failing cases that involve it are attributed to the defects listed before"
        if kf and Q[sw]:
            report.known_finding(kf["id"], f"{kf['what']} [{key}] — witness fails: NOT({WITNESSES[sw]}); {eg}")
        else:
            text = lst[0][2] if lst else f"witness fails: NOT({WITNESSES[sw]})"
            report.violation(f"C12 [{key}] (not listed as known in known_findings.json): {text}",
                             {"kind": "defect", "class": key, "witness": WITNESSES[sw], "switches": Q,
                              "case": cases[lst[0][0]].desc if lst else None, "examples": [t for _, _, t in lst[:5]]})
    seen = set()
    for i, cat, text, keys in unexplained:
        tag = (cases[i].kind, cat)
        if tag in seen:
            continue
        seen.add(tag)
        why = "model and implementation disagree as well" if i in disagree else "no defect switch found on this tree explains it"
        report.violation(f"C12: {text} ({why})", {"kind": "unexplained", "case": cases[i].desc, "category": cat,
                                                  "switches": Q, "candidate_classes": keys},
                         found_input=cat != "harness")
    if not report.violations:
        for k, path, log in errors:
            report.violation(f"correspondence shard did not evaluate: {log[-300:]}", {"kind": "shard-error", "log": log}, found_input=False)
        for i in sorted(disagree)[:3]:
            report.violation(f"model (switches {[k for k in SWITCHES if Q[k]]}) and implementation disagree on {cases[i].desc}",
                             {"kind": "correspondence", "case": cases[i].desc, "term": results[i]["coq"][:1500], "switches": Q})
        if not ok and not report.violations:
            report.violation("C12: proof / bridge obligation no longer checks: "
                             + str(report.coverage.get("broken_obligation", {}).get("where") or report.notes),
                             {"kind": "broken-proof", **report.coverage.get("broken_obligation", {})}, found_input=False)

    if info:
        diff = {k: (info["source_switches"][k], Q[k]) for k in SWITCHES if info["source_switches"][k] != Q[k]}
        report.coverage["source_vs_witness"] = "agree" if not diff else diff
        if diff and not report.violations:
            report.violation(f"C12: the sources read by the translator and the replayed witnesses disagree on the defect switches "
                             f"(source, behaviour): {diff}", {"kind": "source-vs-witness", "diff": diff}, found_input=False)
    n_fail = sum(1 for r in results if r["fail"])
    report.coverage.update({
        "evaluations": len(cases), "distinct_nontrivial": len({c.desc for c in cases}),
        "exhaustive": True,
        "rule": "exhaustive tables: all 14 numeric dtypes (bool, int8-64, uint8-64, float16-64, complex64/128) and all 196 ordered "
                "pairs x constructors (ndarray, numpy scalar, list, polynomial, dict, attributes; polynomial/aspolynomial; with and "
                "without dtype=) / astype / + - * (equal shapes and broadcast) / concatenate, where, stacks; every dtype x Python "
                "scalars (int, out-of-range int, float, complex, bool) x + - *, ** 0..3, indexing, shape functions, diff, ediff1d, "
                "negative, cumsum, sum, prod, set_dimensions (incl. all terms dropped), cancelling results, empty coefficient lists, "
                "zero-size arrays; plus a random stream over dtype pairs / shapes / name sets.  Values: exact integers incl. "
                "boundary values of every dtype (127, 128, 255, -1, 2**31-1, 2**31, 2**53+1, 2**63, ...).  distinct = distinct case descriptions",
        "tables": {k: len(v) for k, v in sorted(tables.items())},
        "by_kind": kinds,
        "dtype_pairs_covered": len({t[1:] for c in cases if c.table and c.table[0].startswith("arith-") for t in [c.table]}),
        "defect_switches_on_this_tree": {k: Q[k] for k in SWITCHES},
        "witnesses": WITNESSES,
        "failing_cases": n_fail,
        "failing_by_class": fails_count,
        "interpreter_deaths": len(died),
        "coq_cases": len(cc.cases), "coq_disagreements": len(disagree),
        "traces_validated_against_impl": len(cc.cases),
        "translator": "ok" if tr_ok else "failed", "translator_facts": info,
    })
    for r in results[:3]:
        report.sample({"case": cases[r["i"]].desc, "fail": r["fail"], "coq": (r["coq"] or "")[:300]})
    report.coverage["trusted_base"] = ["Coq 8.16.1 kernel + VM", "Coq stdlib (ZArith, List, Lia)", "numpy as oracle for casts and promoted arithmetic "
                                       "on plain arrays", "harness: poison hook, observation of raw buffers, literal encoding",
                                       "translator harness/translators/dtype_tr.py"]
    report.assumptions += [
        "integer-valued data only; floats outside +-2**precision are compared with numpy directly but are 'Inexact' (no claim) in the model",
        "float/complex -> integer casts only for values inside the target range (C undefined behaviour otherwise)",
        "a coefficient whose correct encoding consists of 0xA5 bytes only is not counted as unwritten",
        "prod is compared with repeated multiplication in the array's own dtype (numpy.prod widens small integers; numpoly.prod is defined by multiply)",
        "polynomial([]) is compared by shape only (numpy's default dtype for an empty list is float64, numpoly's int64)",
    ]


def replay(path):
    data = json.load(open(path))
    rep = data["replay"]
    print(json.dumps(rep, indent=1)[:3000])
    install_poison()
    print("defect switches on the tree now:", detect_switches())
    want = rep.get("case")
    if want:
        seed = int(path.rsplit("_", 2)[-2]) if path.rsplit("_", 2)[-2].isdigit() else 0
        for tier in ("quick", "thorough"):
            for c in all_cases(core.rng_for(seed, "C12"), tier):
                if c.desc == want:
                    print("re-run:", c.desc, "->", run_one(c)["fail"])
                    return 0
    return 0
