"""C02 — evaluation and substitution compute the polynomial's value."""
from __future__ import annotations

import json

import numpy
import numpoly

from harness import core, gen

HEADER = """From Coq Require Import ZArith.
From mathcomp Require Import all_ssreflect all_algebra ssrZ.
From NP Require Import Base Poly Harness Eval.
Delimit Scope Z_scope with CZ.
Local Notation P := ZParr.
Local Notation D := dflt_opts.
"""
TARGETS = ["Gen/GenSource.vo", "Bridge/BridgeSrcC02.vo", "Props/P_C02.vo"]
ARG_SHAPES = [(), (), (2,), (2, 1), (1, 3), (3,), (2, 1, 3)]
INT_TYPES = [numpy.int8, numpy.int16, numpy.int32, numpy.int64, numpy.uint8, numpy.uint16, numpy.uint32, numpy.uint64]


def exact_eval(lay, i, assign):
    tot = 0
    for r, c in zip(lay["rows"], lay["cols"]):
        t = c[i]
        for v, e in zip(lay["names"], r):
            t *= assign[v] ** e
        tot += t
    return tot


def carrier(rng, value, kind):
    """The same mathematical value carried by different numeric types."""
    if kind == "int":
        return int(value)
    if kind == "float":
        return float(value)
    if kind == "bool":
        return bool(value)
    if kind == "complex":
        return complex(value)
    if kind == "np":
        ts = [t for t in INT_TYPES if value >= 0 or numpy.issubdtype(t, numpy.signedinteger)]
        return rng.choice(ts)(value)
    if kind == "npfloat":
        return rng.choice([numpy.float32, numpy.float64])(value)
    raise ValueError(kind)


def coq_arg(a):
    if a is None:
        return "None"
    arr = numpy.asarray(a)
    return f"(Some (ZNum {core.cnats(arr.shape)} {core.cseq(core.cz(core.exact_int(v)) for v in arr.ravel().tolist())}))"


def coq_parg(a):
    if a is None:
        return "None"
    if isinstance(a, numpoly.ndpoly):
        return f"(Some (ZPoly {core.coq_parr(core.poly_layout(a))}))"
    return coq_arg(a)


def run(report, tier, seed):
    from harness.translators import source_tr
    ok = core.prove_tied(report, TARGETS, [source_tr])
    rng = core.rng_for(seed, "C02")
    cc = core.CoqCases("C02", HEADER, shard=150)
    viol = []
    n = 700 if tier == "quick" else 12000
    nontrivial = set()
    stats = {"numeric": 0, "carrier": 0, "partial": 0, "poly_arg": 0, "staged": 0, "errors": 0}

    def add(kind, what, rep):
        viol.append((kind, what, rep))

    for k in range(n):
        shape = gen.rand_shape(rng, 2)
        names = gen.rand_names(rng, 3)
        p = gen.rand_poly(rng, shape, names, nterms=rng.choice([1, 2, 3, 4]), maxexp=3, dtype=numpy.int64, raw=rng.random() < 0.2)
        lay = core.poly_layout(p)
        D = len(lay["names"])
        size = int(numpy.prod(shape)) if shape else 1
        desc = gen.describe(p)
        mode = rng.choice(["numeric", "numeric", "carrier", "partial", "poly_arg", "staged", "errors"])
        stats[mode] += 1
        rep = {"poly": desc, "layout": lay, "mode": mode}
        if mode in ("numeric", "carrier"):
            # ---- full numeric evaluation ----------------------------------------------------
            vals = {}
            args = {}
            for v in lay["names"]:
                if mode == "carrier" or rng.random() < 0.5:
                    x = rng.choice([-3, -2, -1, 0, 1, 2, 3])
                    if rng.random() < 0.1 and all(r[lay["names"].index(v)] <= 1 for r in lay["rows"]):
                        x = rng.choice([70000, -70000, 2 ** 33])
                    vals[v] = numpy.array(x, dtype=object)
                    kinds = ["int", "float", "np", "npfloat"] + (["bool"] if x in (0, 1) else [])
                    if abs(x) > 3:
                        kinds = ["int", "float"]
                    args[v] = carrier(rng, x, rng.choice(kinds))
                else:
                    s = rng.choice(ARG_SHAPES[2:]) if rng.random() < 0.8 else ()
                    arr = numpy.array([rng.randint(-3, 3) for _ in range(int(numpy.prod(s)) if s else 1)], dtype=numpy.int64).reshape(s)
                    vals[v] = arr.astype(object)
                    args[v] = arr if rng.random() < 0.7 else arr.astype(float)
            try:
                bs = numpy.broadcast_shapes(*[numpy.shape(a) for a in args.values()])
            except ValueError:
                continue
            pos = []
            kw = {}
            for j, v in enumerate(lay["names"]):
                if rng.random() < 0.5 and len(pos) == j:
                    pos.append(args[v])
                else:
                    kw[f"q{v}"] = args[v]
            try:
                res = p(*pos, **kw)
            except Exception as exc:  # noqa: BLE001
                add("raise:numeric", f"{desc}({pos}, {kw}) raised {type(exc).__name__}: {exc}", rep)
                continue
            rep["args"] = str((pos, kw))
            if isinstance(res, numpoly.ndpoly) or not isinstance(res, (numpy.ndarray, numpy.generic)):
                add("type", f"full evaluation {desc}({pos}, {kw}) returned {type(res).__name__}, not a plain array", rep)
                continue
            res = numpy.asarray(res)
            want_shape = tuple(shape) + tuple(bs)
            bvals = {v: numpy.broadcast_to(vals[v], bs).ravel() for v in vals}
            m = int(numpy.prod(bs)) if bs else 1
            want = [exact_eval(lay, i, {v: int(bvals[v][j]) for v in bvals}) for i in range(size) for j in range(m)]
            got = [core.exact_int(x) for x in res.ravel().tolist()] if res.dtype.kind != "c" else [core.exact_int(x) for x in res.ravel()]
            if tuple(res.shape) != want_shape or got != want:
                add("value:" + mode, f"{desc}({pos}, {kw}) = {res.tolist()} (shape {res.shape}); exact value {want} (shape {want_shape})", rep)
                continue
            if any(e >= 2 for r in lay["rows"] for e in r):
                nontrivial.add(json.dumps([lay, str(pos), str(kw)], default=str))
            if all(abs(int(x)) < 2 ** 40 for x in want):
                cargs = core.cseq(coq_arg(a) for a in pos)
                ckw = core.cseq(f"({core.name_index(kk)}%N, ZNum {core.cnats(numpy.shape(a))} "
                                f"{core.cseq(core.cz(core.exact_int(x)) for x in numpy.asarray(a).ravel().tolist())})" for kk, a in kw.items())
                cc.add(f"chk_num (zcall_numeric {core.coq_parr(lay)} {cargs} {ckw}) "
                       f"(NOk {core.cnats(want_shape)} {core.cseq(core.cz(x) for x in want)})", rep)
            if mode == "carrier":
                # the value does not depend on the numeric type that carries the argument
                for v in lay["names"]:
                    x = int(vals[v])
                    alts = [carrier(rng, x, kk) for kk in (["int", "float"] + (["np"] if abs(x) <= 3 else []))]
                    outs = []
                    for alt in alts:
                        a2 = dict(args)
                        a2[v] = alt
                        try:
                            outs.append([core.exact_int(y) for y in numpy.asarray(p(**{f"q{u}": a2[u] for u in a2})).ravel().tolist()])
                        except Exception as exc:  # noqa: BLE001
                            outs.append(f"{type(exc).__name__}: {exc}")
                    if any(o != outs[0] for o in outs):
                        add("carrier", f"{desc} evaluated at q{v}={[type(a).__name__ + ':' + str(a) for a in alts]} gives different results {outs}", rep)
                        break
            report.sample({"poly": desc, "args": str((pos, kw)), "result": res.tolist()}, cap=4)
        elif mode in ("partial", "poly_arg", "staged"):
            # ---- substitution ------------------------------------------------------------------
            bound = {}
            for v in lay["names"]:
                r = rng.random()
                if r < 0.35:
                    continue
                if mode == "partial" or r < 0.6:
                    bound[v] = rng.choice([-2, -1, 0, 1, 2, numpy.array([1, -1]), 2.0])
                else:
                    qn = gen.rand_names(rng, 2)
                    bound[v] = gen.rand_poly(rng, rng.choice([(), (), (2,)]), qn, nterms=rng.choice([1, 2]), maxexp=2, dtype=numpy.int64, raw=False)
            if mode == "poly_arg" and D >= 2 and rng.random() < 0.3:      # swap
                a, b = lay["names"][0], lay["names"][1]
                bound = {a: numpoly.symbols(f"q{b}"), b: numpoly.symbols(f"q{a}")}
            if not bound or (len(bound) == D and all(not isinstance(x, numpoly.ndpoly) for x in bound.values())):
                continue
            kw = {f"q{v}": a for v, a in bound.items()}
            try:
                res = p(**kw)
            except Exception as exc:  # noqa: BLE001
                add("raise:" + mode, f"{desc}(**{ {k: gen.describe(a) for k, a in kw.items()} }) raised {type(exc).__name__}: {exc}", rep)
                continue
            rep["args"] = {kk: gen.describe(a) for kk, a in kw.items()}
            try:
                rshape, rels = core.observe_any(res)
            except ValueError:
                continue
            ckw = core.cseq(f"({core.name_index(kk)}%N, " + (f"ZPoly {core.coq_parr(core.poly_layout(a))}" if isinstance(a, numpoly.ndpoly)
                            else f"ZNum {core.cnats(numpy.shape(a))} {core.cseq(core.cz(core.exact_int(x)) for x in numpy.asarray(a).ravel().tolist())}") + ")"
                            for kk, a in kw.items())
            cc.add(f"chk (zcall_poly D {core.coq_parr(lay)} [::] {ckw}) (EOk {core.coq_obs(rshape, rels)})", rep)
            # staged evaluation = evaluation at once (numeric points for all remaining names)
            if mode == "staged" or rng.random() < 0.3:
                allnames = sorted(set(lay["names"]) | {core.name_index(nm) for a in bound.values() if isinstance(a, numpoly.ndpoly) for nm in a.names})
                point = {v: rng.choice([-2, -1, 1, 2]) for v in set(allnames) | set(range(12))}
                try:
                    inner = {v: (a(**{f"q{core.name_index(nm)}": point[core.name_index(nm)] for nm in a.names}) if isinstance(a, numpoly.ndpoly) else a)
                             for v, a in bound.items()}
                    full = {f"q{v}": inner.get(v, point[v]) for v in lay["names"]}
                    at_once = numpy.asarray(p(**full))
                    if isinstance(res, numpoly.ndpoly):
                        staged = numpy.asarray(res(**{nm: point[core.name_index(nm)] for nm in res.names}))
                    else:
                        staged = numpy.asarray(res)
                    if staged.shape != at_once.shape or not numpy.array_equal(staged, at_once):
                        add("staged", f"evaluating {desc} in stages via {rep['args']} at {point} gives {staged.tolist()}, at once {at_once.tolist()}", rep)
                    if isinstance(res, numpoly.ndpoly):
                        # second stage by keyword for the ORIGINAL polynomial's names that the first stage left unbound
                        # (the substituted polynomial keeps them, as the at-once call accepts them), and by position in
                        # the substituted polynomial's own name order
                        kw2 = {f"q{v}": point[v] for v in lay["names"] if v not in bound}
                        kw2.update({nm: point[core.name_index(nm)] for a in bound.values() if isinstance(a, numpoly.ndpoly)
                                    for nm in a.names if nm in res.names})
                        pos2 = tuple(point[core.name_index(nm)] for nm in res.names)
                        for label, st2 in (("keyword-original-names", lambda: res(**kw2)), ("positional", lambda: res(*pos2)),
                                           ("call-function", lambda: numpoly.call(res, pos2))):
                            got2 = st2()
                            if isinstance(got2, numpoly.ndpoly) or numpy.asarray(got2).shape != at_once.shape \
                                    or not numpy.array_equal(numpy.asarray(got2), at_once):
                                add("staged", f"second stage ({label}) of {desc} after {rep['args']} at {point} gives "
                                              f"{got2!r:.200}, at once {at_once.tolist()}", rep)
                                break
                except Exception as exc:  # noqa: BLE001
                    add("raise:staged", f"staged evaluation of {desc} raised {type(exc).__name__}: {exc}", rep)
        else:
            # ---- errors ---------------------------------------------------------------------------
            unknown = next(v for v in (5, 6, 7) if v not in lay["names"])
            cases = [((), {f"q{unknown}": 1}), ((1,), {f"q{lay['names'][0]}": 2})]
            for pos, kw in cases:
                try:
                    p(*pos, **kw)
                    add("noerror", f"{desc}(*{pos}, **{kw}) did not raise TypeError", rep)
                except TypeError:
                    pass
                except Exception as exc:  # noqa: BLE001
                    add("wrongerror", f"{desc}(*{pos}, **{kw}) raised {type(exc).__name__} instead of TypeError", rep)
                cargs = core.cseq(coq_arg(a) for a in pos)
                ckw = core.cseq(f"({core.name_index(kk)}%N, ZNum [::] [:: {core.cz(a)}])" for kk, a in kw.items())
                cc.add(f"chk_num (zcall_numeric {core.coq_parr(lay)} {cargs} {ckw}) (NErr TypeError)", rep)
    # ---- polynomials that carry an indeterminate they do not use: it stays an argument through partial evaluation --------
    for k in range(24 if tier == "quick" else 300):
        names = tuple(sorted(rng.sample([0, 1, 2, 3, 10], 3)))
        unused = rng.randrange(3)
        only = rng.choice([None, (unused + 1) % 3])      # sometimes a single indeterminate is used, the other two are not
        rows = sorted({tuple(0 if (c == unused or (only is not None and c != only)) else rng.choice([0, 1, 2]) for c in range(3))
                       for _ in range(rng.randint(2, 4))} | ({tuple(2 if c == only else 0 for c in range(3))} if only is not None else set()))
        shape = rng.choice([(), (2,), (2, 1)])
        cols = [numpy.array([rng.choice([-2, -1, 1, 2, 3]) for _ in range(int(numpy.prod(shape)) if shape else 1)]).reshape(shape) for _ in rows]
        p = numpoly.polynomial_from_attributes(rows, cols, tuple(f"q{v}" for v in names), retain_names=True, retain_coefficients=True)
        used = [v for c, v in enumerate(names) if c != unused and (only is None or c == only)]
        first = rng.choice(used)
        point = {v: rng.choice([-2, -1, 2, 3]) for v in range(13)}
        fresh = numpoly.symbols(f"q{rng.choice([5, 6])}")
        arg = rng.choice([point[first], float(point[first]), fresh, fresh + 1] if only is None else [fresh, fresh + 1, 2 * fresh])
        rep = {"poly": gen.describe(p), "names": names, "first_stage": {f"q{first}": gen.describe(arg) if isinstance(arg, numpoly.ndpoly) else arg},
               "stream": "unused-indeterminate"}
        n += 1
        try:
            mid = p(**{f"q{first}": arg})
            inner = arg(**{nm: point[core.name_index(nm)] for nm in arg.names}) if isinstance(arg, numpoly.ndpoly) else arg
            at_once = numpy.asarray(p(**{f"q{v}": (inner if v == first else point[v]) for v in names}))
            kw2 = {f"q{v}": point[v] for v in names if v != first}
            if isinstance(arg, numpoly.ndpoly):
                kw2.update({nm: point[core.name_index(nm)] for nm in arg.names if isinstance(mid, numpoly.ndpoly) and nm in mid.names})
            got = mid(**kw2) if isinstance(mid, numpoly.ndpoly) else mid
            if isinstance(got, numpoly.ndpoly) or not numpy.array_equal(numpy.asarray(got), at_once):
                add("staged", f"{rep['poly']} with names {names}: second stage {kw2} after {rep['first_stage']} gives {got!r:.160}, "
                              f"at once {at_once.tolist()}", rep)
        except Exception as exc:  # noqa: BLE001
            add("raise:staged", f"staged evaluation of {rep['poly']} (names {names}) after {rep['first_stage']} raised "
                                f"{type(exc).__name__}: {exc}", rep)
    # ---- narrow coefficient dtypes at large Python ints; tiny coefficients through staged evaluation ---------
    from fractions import Fraction
    extra = 60 if tier == "quick" else 600
    for k in range(extra):
        D = rng.randint(1, 2)
        names = tuple(sorted(rng.sample([0, 1, 2], D)))
        rows = sorted({r for r in (tuple(rng.choice([0, 1, 2, 3]) for _ in range(D)) for _ in range(rng.randint(2, 5))) if sum(r) <= 3}) or [(1,) * D]
        if k % 2 == 0:
            d = rng.choice(["int8", "int16", "int32", "float32"])
            cols = [numpy.array(rng.choice([-3, -1, 1, 2, 5]), dtype=d) for _ in rows]
            point = [rng.choice([70000, -70000, 2 ** 16 + 1, -3, 99991]) for _ in names]      # |value| stays far below 2**63
            tag = f"narrow:{d}"
        else:
            cols = [numpy.array(rng.choice([2.0 ** -30, -2.0 ** -40, 3.0, 1.0, 2.0 ** -33])) for _ in rows]
            point = [rng.choice([2, -3, 2 ** 16, 2 ** 15]) for _ in names]
            tag = "tiny-coefficients"
        p = numpoly.polynomial_from_attributes(rows, cols, tuple(f"q{v}" for v in names))
        want = sum(Fraction(float(c)) * Fraction(numpy.prod([Fraction(x) ** e for x, e in zip(point, r)])) for r, c in zip(rows, cols))
        rep = {"poly": gen.describe(p), "point": point, "stream": tag}
        n += 1
        try:
            at_once = p(*point)
            vals = {"python ints": at_once, "numpy.int64": p(*[numpy.int64(x) for x in point]), "floats": p(*[float(x) for x in point])}
            if len(p.names) == 2:
                for label, (i, j) in (("staged", (0, 1)), ("staged-reversed", (1, 0))):
                    first = p(**{p.names[i]: point[i]})
                    vals[label] = first(**{p.names[j]: point[j]}) if isinstance(first, numpoly.ndpoly) else first
            for how, v in vals.items():
                got = Fraction(float(numpy.asarray(v).item())) if numpy.asarray(v).dtype.kind == "f" else Fraction(int(numpy.asarray(v).item()))
                tol = abs(want) * Fraction(1, 10 ** 9) if numpy.asarray(v).dtype.kind == "f" else 0
                if abs(got - want) > tol:
                    add(f"value:{tag.split(':')[0]}", f"{gen.describe(p)} evaluated at {point} with {how}: {float(got)!r}, the exact value is {float(want)!r}", rep)
                    break
        except Exception as exc:  # noqa: BLE001
            add(f"raise:{tag.split(':')[0]}", f"{gen.describe(p)} at {point} raised {type(exc).__name__}: {exc}", rep)
    # ---- a narrow numpy scalar whose own power overflows its type (known finding D45): the value depends on the carrier
    try:
        q0_, q1_ = numpoly.variable(2)
        pw = q0_ ** 5 + q1_
        got = [int(numpy.asarray(pw(c, 1)).item()) for c in (3, numpy.int64(3), numpy.int8(3), numpy.uint8(3))]
        if len(set(got)) != 1:
            add("value:narrow-carrier-power", f"(q0**5+q1)(c, 1) for c = 3, int64(3), int8(3), uint8(3) gives {got}: the value depends on the type "
                                              f"that carries the argument (3**5 = 243 does not fit int8)", {"poly": "q0**5+q1", "values": got})
    except Exception as exc:  # noqa: BLE001
        add("raise:narrow-carrier-power", f"(q0**5+q1)(int8(3), 1) raised {type(exc).__name__}: {exc}", {"poly": "q0**5+q1"})
    failed, errors = cc.run()
    report.coverage.update({
        "evaluations": n, "distinct_nontrivial": len(nontrivial),
        "rule": "C01-space polynomial arrays x argument assignments: full numeric (positional/keyword mixes; Python int incl. "
                "negative, >2**16, 2**33; bool; float; numpy scalars of all integer widths and float32/64; arrays of shapes "
                "()...(2,1,3) broadcasting among themselves), carrier swaps, partial application, polynomial arguments incl. "
                "swaps, staged vs at-once evaluation, unknown / doubly supplied names; non-trivial = a term with exponent >= 2",
        "per_mode": stats, "coq_cases": len(cc.cases), "traces_validated_against_impl": len(cc.cases),
    })
    kinds = set()
    for kind, what, rep in viol:
        kf = report.match_known(kind)
        if kf:
            if kind not in kinds:
                report.known_finding(kf["id"], kf["what"] + " — e.g. " + what[:200])
            kinds.add(kind)
            continue
        if kind in kinds:
            continue
        kinds.add(kind)
        report.violation("C02: " + what, {"kind_key": kind, **rep})
    if not report.violations:
        for k, path, log in errors:
            report.violation(f"correspondence shard did not evaluate: {log[-300:]}", {"kind": "shard-error", "log": log}, found_input=False)
        for idx in failed[:3]:
            term, meta = cc.cases[idx]
            report.violation(f"model and implementation disagree: {meta['mode']} call of {meta['poly']} with {meta.get('args')}",
                             {"term": term[:800], **meta})
        if not ok and not report.violations:
            report.violation("C02: proof obligation no longer checks: " + str(report.coverage.get("broken_obligation", {}).get("where")),
                             {"kind": "broken-proof", **report.coverage.get("broken_obligation", {})}, found_input=False)
    report.coverage["trusted_base"] = ["Coq 8.16.1 kernel + VM", "MathComp / SsrMultinomials (meval)", "harness exact integer evaluation"]
    report.assumptions += ["integer-valued arguments and coefficients, magnitudes chosen so that fixed-width numpy scalars do not overflow in their own powers (known finding D45 is the overflowing case)"]


def replay(path):
    data = json.load(open(path))
    print(json.dumps(data["replay"], indent=1)[:2500])
    return 0
