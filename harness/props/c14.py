"""C14 — global options are scoped, restored on every exit path, and updated atomically."""
from __future__ import annotations

import itertools
import json

from harness import core
from harness.translators import option_tr

HEADER = """From mathcomp Require Import all_ssreflect.
From NP Require Import Options GenOptions.
Local Notation S := PSet. Local Notation G := PGetMut. Local Notation F := PDefMut.
Local Notation B := PBlock. Local Notation R := PRaise. Local Notation T := PTry.
Definition agree (ps : seq prog) (tr : seq (nat * store * store)) : bool :=
  run_enc gen_code gen_defaults ps == tr.
"""
TARGETS = ["Bridge/BridgeOptions.vo", "Props/P_C14.vo"]
BAD = 99

KWS = {
    "A": [(7, 1)], "B": [(8, 1), (7, 0)], "C": [(7, 1), (5, 1)],
    "X": [(BAD, 1)], "AX": [(9, 1), (BAD, 1)], "XA": [(BAD, 1), (9, 1)],
}


# ---- programs ---------------------------------------------------------------------
def leaves():
    out = [("set", k) for k in KWS]
    out += [("get", 7, 1), ("get", BAD, 1), ("def", 7, 1), ("raise",)]
    return out


def programs_of_size(n, memo={}):
    """All statement lists with exactly n nodes."""
    if n in memo:
        return memo[n]
    if n == 0:
        res = [()]
    else:
        res = []
        for first_size in range(1, n + 1):
            for item in items_of_size(first_size):
                for rest in programs_of_size(n - first_size):
                    res.append((item,) + rest)
    memo[n] = res
    return res


def items_of_size(n, memo={}):
    if n in memo:
        return memo[n]
    res = []
    if n == 1:
        res += leaves()
    if n >= 1:
        for body in programs_of_size(n - 1):
            res.append(("try", body))
            for k in KWS:
                res.append(("block", k, body))
    memo[n] = res
    return res


def prog_coq(ps):
    def item(p):
        t = p[0]
        if t == "set":
            return "S " + kw_coq(KWS[p[1]])
        if t == "get":
            return f"G {p[1]} {p[2]}"
        if t == "def":
            return f"F {p[1]} {p[2]}"
        if t == "raise":
            return "R"
        if t == "try":
            return "T " + prog_coq(p[1])
        return "B " + kw_coq(KWS[p[1]]) + " " + prog_coq(p[2])
    return "[:: " + "; ".join(item(p) for p in ps) + "]" if ps else "[::]"


def kw_coq(kw):
    return "[:: " + "; ".join(f"({k}, {v})" for k, v in kw) + "]"


def prog_str(ps):
    def item(p):
        t = p[0]
        if t == "set":
            return f"set({p[1]})"
        if t in ("get", "def"):
            return f"{t}mut({p[1]},{p[2]})"
        if t == "raise":
            return "raise"
        if t == "try":
            return "try{" + prog_str(p[1]) + "}"
        return f"with({p[1]}){{" + prog_str(p[2]) + "}"
    return "; ".join(item(p) for p in ps)


# ---- implementation side --------------------------------------------------------------
class _Boom(Exception):
    pass


def run_impl(ps, keys):
    """Executes the nested program on numpoly and returns the trace [(tag, store, defaults)] and the
    list of property-predicate failures observed directly on the implementation."""
    import numpoly
    defaults0 = numpoly.get_options(defaults=True)
    names = list(keys)

    def alt(v):
        return (not v) if isinstance(v, bool) else v + "_"

    def value(k, tok):
        if k == BAD:
            return tok
        d = defaults0[names[k]]
        return d if tok == 0 else alt(d)

    def kname(k):
        return "no_such_option" if k == BAD else names[k]

    def encode(dct):
        out = []
        for k, v in dct.items():
            if k in names:
                i = names.index(k)
                d = defaults0[k]
                out.append((i, 0 if v == d and type(v) is type(d) else (1 if v == alt(d) else 7)))
            else:
                out.append((BAD, v if isinstance(v, int) and not isinstance(v, bool) else 7))
        return out

    def obs(tag):
        return (tag, encode(numpoly.get_options()), encode(numpoly.get_options(defaults=True)))

    trace, fails = [], []

    def kwargs(kw):
        return {kname(k): value(k, v) for k, v in kw}

    def expect_update(before, kw):
        d = dict(before)
        for k, v in kw:
            d[k] = v
        return sorted(d.items())

    def seq(body):
        for p in body:
            item(p)

    def item(p):
        t = p[0]
        before = encode(numpoly.get_options())
        if t == "set":
            kw = KWS[p[1]]
            try:
                numpoly.set_options(**kwargs(kw))
                tag = 0
            except KeyError:
                tag = 1
            o = obs(tag)
            trace.append(o)
            invalid = any(k == BAD for k, _ in kw)
            if invalid and (tag != 1 or o[1] != before):
                fails.append(f"set_options with unknown key: tag={tag}, store changed={o[1] != before}")
            if not invalid and (tag != 0 or sorted(o[1]) != expect_update(before, kw)):
                fails.append("set_options(valid) did not set exactly the given options")
        elif t == "get":
            d = numpoly.get_options()
            d[kname(p[1])] = value(p[1], p[2])
            o = obs(0)
            trace.append(o)
            if o[1] != before:
                fails.append("mutating the dict returned by get_options() changed the options")
        elif t == "def":
            d = numpoly.get_options(defaults=True)
            d[kname(p[1])] = value(p[1], p[2])
            trace.append(obs(0))
        elif t == "raise":
            trace.append(obs(2))
            raise _Boom()
        elif t == "try":
            try:
                seq(p[1])
            except _Boom:
                pass
            trace.append(obs(0))
        else:
            kw = KWS[p[1]]
            invalid = any(k == BAD for k, _ in kw)
            raised = False
            entered = False
            try:
                with numpoly.global_options(**kwargs(kw)) as handle:
                    entered = True
                    if isinstance(handle, dict):
                        # what the block hands out is a detached copy: writing to it (a valid key the block did not
                        # set, and an unknown key) must not touch the options - no model step corresponds to this
                        handle[names[3]] = alt(defaults0[names[3]])
                        handle["no_such_option"] = 4
                    o = obs(0)
                    trace.append(o)
                    if sorted(o[1]) != expect_update(before, kw):
                        fails.append("inside global_options block: not exactly the given options differ")
                    seq(p[2])
            except KeyError:
                if entered:
                    raise
                o = obs(1)
                trace.append(o)
                if not invalid or o[1] != before:
                    fails.append("global_options KeyError handling: store changed or key was valid")
                return
            except _Boom:
                raised = True
            o = obs(2 if raised else 0)
            trace.append(o)
            if invalid:
                fails.append("global_options accepted an unknown option")
            if o[1] != before:
                fails.append(f"options not restored after block exit ({'exception' if raised else 'normal'})")
            if raised:
                raise _Boom()

    try:
        seq(ps)
    except _Boom:
        pass
    shipped = [(i, 0) for i in range(len(names))]
    for tag, st, df in trace:
        if df != shipped:
            fails.append("get_options(defaults=True) no longer returns the shipped defaults")
            break
    return trace, fails


def trace_coq(trace):
    def store(s):
        return "[:: " + "; ".join(f"({k}, {v})" for k, v in s) + "]" if s else "[::]"
    return "[:: " + "; ".join(f"({t}, {store(a)}, {store(b)})" for t, a, b in trace) + "]" if trace else "[::]"


def run(report, tier, seed):
    tr_ok, info = True, None
    try:
        info = option_tr.generate(core.REPO, core.COQ)
    except (option_tr.TranslatorError, SyntaxError, OSError) as exc:
        tr_ok = False
        report.notes.append(f"translator failed on option.py: {exc}")
    ok = tr_ok and core.prove(report, TARGETS)

    import numpoly
    keys = list(numpoly.get_options(defaults=True).keys()) if info is None else info["keys"]
    maxn = 3 if tier == "quick" else 4
    progs = [p for n in range(1, maxn + 1) for p in programs_of_size(n)]
    exhaustive = True
    if tier == "thorough" and len(progs) > 60000:
        rng = core.rng_for(seed, "C14")
        small = [p for n in range(1, 4) for p in programs_of_size(n)]
        big = programs_of_size(4)
        progs = small + rng.sample(big, 60000 - len(small))
        exhaustive = False
    cc = core.CoqCases("C14", HEADER, shard=400)
    nontrivial = 0
    prop_fail = []
    for ps in progs:
        st, val = core.forked(run_impl, ps, keys, timeout=30)
        if st != "ok":
            prop_fail.append((ps, [f"implementation run failed: {st} {val}"], []))
            continue
        trace, fails = val
        if fails:
            prop_fail.append((ps, fails, trace))
        s = prog_str(ps)
        if "with(" in s and ("X" in s or "with(" in s[s.index("with(") + 5:]):
            nontrivial += 1
        if tr_ok:
            cc.add(f"agree {prog_coq(ps)} {trace_coq(trace)}", {"program": s, "impl_trace": trace})
        report.sample({"program": s, "impl_trace": str(trace)[:300]}, cap=4)
    failed, errors = cc.run() if tr_ok and cc.cases else ([], [])
    report.coverage.update({
        "evaluations": len(progs), "distinct_nontrivial": nontrivial, "exhaustive": exhaustive,
        "rule": f"all nested programs with <= {maxn} nodes over: set_options with 6 keyword sets (valid, "
                "invalid, mixed in both orders), mutation of get_options()/get_options(defaults=True) results, "
                "raise, try/except, with global_options(kw) blocks; non-trivial = contains a nested block or an "
                "invalid key together with a block; programs are distinct by construction",
        "traces_validated_against_impl": len(cc.cases),
        "translator": "ok" if tr_ok else "failed",
        "code_facts": None if info is None else info["code"],
    })
    # 1. direct property violations on the implementation (concrete failing histories)
    for ps, fails, trace in prop_fail[:3]:
        report.violation(f"C14 violated on history [{prog_str(ps)}]: {fails[0]}",
                         {"kind": "property", "program": prog_str(ps), "program_struct": ps,
                          "failures": fails, "impl_trace": trace})
    # 2. ties that no longer check
    if not prop_fail:
        for k, path, log in errors:
            report.violation(f"correspondence shard did not evaluate: {log[-300:]}",
                             {"kind": "shard-error", "log": log}, found_input=False)
        for idx in failed[:3]:
            term, meta = cc.cases[idx]
            report.violation(f"model regenerated from option.py and implementation disagree on [{meta['program']}]",
                             {"kind": "correspondence", **meta}, found_input=False)
        if not ok and not report.violations:
            what = "translator could not read option.py" if not tr_ok else \
                "bridge/proof obligation no longer checks: " + str(report.coverage.get("broken_obligation", {}).get("where"))
            report.violation(f"C14: {what}; no history up to {maxn} nodes violates the property on the implementation",
                             {"kind": "broken-proof", "theorem": "Bridge/BridgeOptions.v bridge_option_code / Props/P_C14.v",
                              **report.coverage.get("broken_obligation", {})}, found_input=False)
    report.coverage["trusted_base"] = [
        "Coq 8.16.1 kernel + VM", "MathComp ssreflect", "translator harness/translators/option_tr.py (Python ast -> ocode record)",
        "harness: program enumerator, implementation runner (forked child per history), trace encoding"]
    report.assumptions += ["single-threaded use; contextlib.contextmanager semantics (generator resumed/thrown into) trusted",
                           "option values are compared as tokens: default / alternative / other"]


def replay(path):
    data = json.load(open(path))
    rep = data["replay"]
    print(json.dumps(rep, indent=1)[:3000])
    if "program_struct" in rep:
        import numpoly

        def tup(x):
            return tuple(tup(y) for y in x) if isinstance(x, list) else x
        ps = tup(rep["program_struct"])
        keys = list(numpoly.get_options(defaults=True).keys())
        print("re-run on the implementation:", core.forked(run_impl, ps, keys))
    return 0
