"""C08 — numpy, numpoly and operator spellings agree; unsupported numpy calls raise."""
from __future__ import annotations

import json

import numpy
import numpoly

from harness import core, gen, catalogue

TARGETS = ["Bridge/BridgeDispatch.vo", "Props/P_C08.vo"]


def same_result(a, b):
    if isinstance(a, numpoly.ndpoly) or isinstance(b, numpoly.ndpoly):
        if not (isinstance(a, numpoly.ndpoly) and isinstance(b, numpoly.ndpoly)):
            return False
        if tuple(a.shape) != tuple(b.shape) or a.dtype != b.dtype or a.names != b.names:
            return False
        try:
            return core.canon_elements(a) == core.canon_elements(b)
        except ValueError:
            return bool(numpy.all(numpy.asarray(a == b)))
    if isinstance(a, (tuple, list)) and isinstance(b, (tuple, list)):
        return type(a) is type(b) and len(a) == len(b) and all(same_result(x, y) for x, y in zip(a, b))
    if isinstance(a, numpy.ndarray) or isinstance(b, numpy.ndarray) or isinstance(a, numpy.generic) or isinstance(b, numpy.generic):
        a_, b_ = numpy.asarray(a), numpy.asarray(b)
        return a_.shape == b_.shape and a_.dtype == b_.dtype and bool(numpy.array_equal(a_, b_))
    return type(a) is type(b) and a == b


def mk_factory(rng):
    def mk(shape, const=False, nonzero=False):
        if const:
            size = int(numpy.prod(shape)) if shape else 1
            vals = [rng.choice([1, 2, 3, -1, -2]) if nonzero else rng.randint(-3, 3) for _ in range(size)]
            return numpoly.polynomial(numpy.array(vals, dtype=numpy.int64).reshape(shape))
        q = gen.rand_poly(rng, tuple(shape), gen.rand_names(rng, 2), nterms=rng.choice([1, 2, 3]), maxexp=2,
                          dtype=numpy.int64, raw=False)
        if rng.random() < 0.3:
            # coefficient dtypes narrower than 64 bits: the spellings must agree on the dtype of the result as well
            d = rng.choice(["float32", "int16", "int32", "uint8", "complex64"])
            cs = [numpy.abs(numpy.asarray(c)).astype(d) if d == "uint8" else numpy.asarray(c).astype(d) for c in q.coefficients]
            q = numpoly.polynomial_from_attributes(q.exponents, cs, q.names, retain_coefficients=True, retain_names=True)
        return q
    return mk


TEMPLATES = [
    lambda p, q: (p,), lambda p, q: (p, q), lambda p, q: (p, 1), lambda p, q: ([p, q],), lambda p, q: ((p, q),),
    lambda p, q: (p, 0), lambda p, q: (p, [0]), lambda p, q: (p, q, p), lambda p, q: (p, 1, 0), lambda p, q: (p, (1,)),
    lambda p, q: (p, p.shape), lambda p, q: (1, p), lambda p, q: ([0], p), lambda p, q: (p, 2, 1, 0),
]


def probe_unregistered(fn, p, q):
    """FeatureNotSupported on some template -> 'refused'; a returned value -> 'returned'; a call that reached
    ndpoly.__array_function__ for this unregistered function and left it in any other way than by
    FeatureNotSupported -> 'dispatched-without-refusal'; else 'inconclusive' (no template got as far as the dispatch)."""
    import io
    errs = []
    seen = []
    inner = numpoly.ndpoly.__array_function__

    def watch(self, func, types, args, kwargs):
        if func in numpoly.FUNCTION_COLLECTION:
            return inner(self, func, types, args, kwargs)
        try:
            out = inner(self, func, types, args, kwargs)
        except numpoly.FeatureNotSupported:
            seen.append("refused")
            raise
        except BaseException as exc:
            seen.append(f"raised {type(exc).__name__}: {str(exc)[:80]}")
            raise
        seen.append(f"returned {str(out)[:80]}")
        return out
    numpoly.ndpoly.__array_function__ = watch
    try:
        for t in TEMPLATES + [lambda p, q: (io.BytesIO(), p), lambda p, q: (io.BytesIO(), p, q), lambda p, q: (io.StringIO(), p)]:
            del seen[:]
            try:
                out = fn(*t(p, q))
            except numpoly.FeatureNotSupported:
                return "refused", None
            except Exception as exc:  # noqa: BLE001
                if seen and seen[-1] != "refused":
                    return "dispatched-without-refusal", (t(p, q), seen[-1])
                errs.append(f"{type(exc).__name__}")
                continue
            return "returned", (t(p, q), out)
    finally:
        numpoly.ndpoly.__array_function__ = inner
    return "inconclusive", sorted(set(errs))


def run(report, tier, seed):
    from harness.translators import dispatch_tr
    tr_ok, info = True, None
    try:
        info = dispatch_tr.generate(core.REPO, core.COQ)
    except Exception as exc:  # noqa: BLE001
        tr_ok = False
        report.notes.append(f"translator failed: {type(exc).__name__}: {exc}")
    ok = tr_ok and core.prove(report, TARGETS)
    rng = core.rng_for(seed, "C08")
    viol = []
    E = catalogue.entries()
    M = catalogue.method_spellings()
    mk = mk_factory(rng)
    reps = 12 if tier == "quick" else 60
    n_eval = 0
    dispatched = set()
    skipped = []
    # ---- (a) every registry entry: numpy / numpoly / method-operator spellings -------------------
    registry = {}
    funcs, ufs = dispatch_tr.universe()
    in_universe = set(funcs) | set(ufs)
    not_numpy = sorted({getattr(f, "__name__", str(f)) for f in list(numpoly.FUNCTION_COLLECTION) + list(numpoly.UFUNC_COLLECTION)
                        if f not in in_universe})
    for f in list(numpoly.FUNCTION_COLLECTION) + list(numpoly.UFUNC_COLLECTION):
        if f in in_universe and not (f.__name__ in dispatch_tr.LIKE_ONLY and f.__module__ == "numpy"):
            registry.setdefault(f.__name__, set()).add(f)
    for name in sorted(registry):
        genf = E.get(name)
        if genf is None:
            skipped.append(name)
            continue
        for npf in registry[name]:
            nplf = getattr(numpoly, name, None)
            if nplf is None:
                viol.append(("missing", f"numpoly.{name} does not exist although numpy.{name} is registered", {"name": name}))
                continue
            for _ in range(reps):
                try:
                    args, kw = genf(rng, mk)
                except Exception:  # noqa: BLE001
                    continue
                n_eval += 1
                outs = {}
                for label, call in (("numpy", lambda: npf(*args, **kw)), ("numpoly", lambda: nplf(*args, **kw))) + \
                        ((("method", lambda: M[name](args, kw)),) if name in M else ()):
                    try:
                        outs[label] = ("ok", call())
                    except Exception as exc:  # noqa: BLE001
                        outs[label] = ("err", type(exc).__name__)
                dispatched.add((name, tuple(outs)))
                base = outs["numpoly"]
                for label, o in outs.items():
                    agree = (o[0] == base[0]) and (o[1] == base[1] if o[0] == "err" else same_result(o[1], base[1]))
                    if not agree:
                        kind = f"spelling:{name}:{label}"
                        if name == "repeat" and "axis" not in kw and getattr(args[0], "ndim", 0) >= 2:
                            kind = "repeat:default-axis"       # D21: numpoly.repeat defaults to axis=0, ndarray.repeat flattens
                        viol.append((kind,
                                     f"numpy/numpoly/method spellings of {name} disagree ({label} vs numpoly): "
                                     f"{str(o)[:200]} vs {str(base)[:200]}; args={[gen.describe(a) if isinstance(a, numpoly.ndpoly) else str(a)[:60] for a in args]} kwargs={kw}",
                                     {"name": name, "label": label}))
                        break
    # ---- / % divmod and their reflected forms are spellings of poly_divide / poly_remainder / poly_divmod -----------
    import operator
    from harness.props import c05
    for _ in range(reps * 4):
        names = tuple(sorted(rng.sample([0, 1, 2], rng.choice([1, 2]))))
        s1, s2 = gen.broadcast_pair(rng, 2)
        kindd = rng.choice(["poly", "poly", "const", "const0", "left"])
        f = c05.rand_poly(rng, s1, names, rng.randint(1, 3), 2)
        if kindd == "poly":
            g = c05.rand_poly(rng, s2, names, rng.randint(1, 2), 2, divisor=True)
        elif kindd == "const":
            g = numpy.array([rng.choice([1, -1, 2, 4, 0.5]) for _ in range(int(numpy.prod(s2)) if s2 else 1)]).reshape(s2)
        elif kindd == "const0":      # constant divisors with zero entries: numeric division would give inf/nan
            g = numpy.array([rng.choice([0, 0, 2, -1]) for _ in range(int(numpy.prod(s2)) if s2 else 1)]).reshape(s2)
            if rng.random() < 0.5:
                g = numpoly.polynomial(g)
        else:
            g, f = c05.rand_poly(rng, s2, names, rng.randint(1, 2), 2, divisor=True), rng.choice([3, 2.0, numpy.array([1.0, 4.0])])
            try:
                numpy.broadcast_shapes(numpy.shape(f), s2)
            except ValueError:
                f = 3
        n_eval += 1
        st, ops = core.forked(c05.run_ops, f, g, timeout=60)
        if st != "ok":
            continue
        ref = ops["poly_divmod"]
        for k, comp in (("poly_divide", 0), ("poly_remainder", 1), ("/", 0), ("%", 1)):
            if k in ops and ref[0] == "ok" and (ops[k][0] != "ok" or ops[k][1] != ref[1][comp]):
                viol.append((f"operator:{k}", f"{k} on ({gen.describe(f)}, {gen.describe(g)}) = {str(ops[k])[:160]} is not component {comp} of "
                             f"poly_divmod = {str(ref[1][comp])[:160]}", {"operator": k}))
        if "divmod" in ops and ops["divmod"] != ref:
            viol.append(("operator:divmod", f"divmod() differs from poly_divmod on ({gen.describe(f)}, {gen.describe(g)})", {"operator": "divmod"}))
        dispatched.add(("operator-division", kindd))

    # reduce / accumulate spellings
    for uf, fn in ((numpy.add, "sum"), (numpy.multiply, "prod"), (numpy.logical_and, "all"), (numpy.logical_or, "any"),
                   (numpy.maximum, "amax"), (numpy.minimum, "amin")):
        for _ in range(reps):
            p = mk((rng.choice([2, 3]), rng.choice([1, 2])))
            ax = rng.choice([0, 1, "default"])
            n_eval += 1
            try:
                # the default of a ufunc method is the first axis (not "all axes" as for sum/prod/...)
                a = uf.reduce(p) if ax == "default" else uf.reduce(p, axis=ax)
                b = getattr(numpoly, fn)(p, axis=0 if ax == "default" else ax)
                if not same_result(a, b):
                    viol.append((f"reduce:{fn}", f"numpy.{uf.__name__}.reduce and numpoly.{fn} disagree on {gen.describe(p)} axis={ax}", {"ufunc": uf.__name__}))
            except Exception as exc:  # noqa: BLE001
                viol.append((f"reduce-raise:{fn}", f"numpy.{uf.__name__}.reduce(poly) raised {type(exc).__name__}: {exc}", {"ufunc": uf.__name__}))
    for _ in range(reps):
        p = mk((3, 2))
        n_eval += 1
        try:
            if not same_result(numpy.add.accumulate(p, axis=0), numpoly.cumsum(p, axis=0)):
                viol.append(("accumulate:cumsum", "numpy.add.accumulate and numpoly.cumsum disagree", {}))
            if not same_result(numpy.add.accumulate(p), numpoly.cumsum(p, axis=0)):
                viol.append(("accumulate:default-axis", f"numpy.add.accumulate(poly) is not the cumulative sum along the first axis on {gen.describe(p)}", {}))
        except Exception as exc:  # noqa: BLE001
            viol.append(("accumulate-raise", f"numpy.add.accumulate(poly) raised {type(exc).__name__}: {exc}", {}))

    # ---- out= through the two spellings ------------------------------------------------------------------
    pz = numpoly.polynomial([numpoly.variable() + 1, 2 * numpoly.variable() + 3])
    for label, call_np, call_npl in (("add(p, 1, out=r)", lambda r: numpy.add(pz, 1, out=r), lambda r: numpoly.add(pz, 1, out=r)),
                                     ("multiply(p, 2, out=r)", lambda r: numpy.multiply(pz, 2, out=r), lambda r: numpoly.multiply(pz, 2, out=r))):
        n_eval += 1
        res = []
        for c in (call_np, call_npl):
            try:
                res.append(("ok", str(c(pz.copy()))))
            except Exception as exc:  # noqa: BLE001
                res.append(("err", type(exc).__name__))
        if res[0] != res[1]:
            viol.append(("out:numpy-spelling", f"numpy.{label} gives {res[0]}, numpoly.{label} gives {res[1]}", {"call": label}))
    # ---- (b) everything else in numpy's override protocol must refuse a polynomial ---------------
    p = numpoly.polynomial([numpoly.variable(), 2])
    q = numpoly.polynomial([1, numpoly.variable() ** 2])
    refused, inconclusive = 0, []
    for f in funcs:
        if f in numpoly.FUNCTION_COLLECTION or (f.__name__ in dispatch_tr.LIKE_ONLY and f.__module__ == "numpy"):
            continue
        n_eval += 1
        st, detail = probe_unregistered(f, p, q)
        if st == "refused":
            refused += 1
        elif st == "returned":
            viol.append((f"returned:{f.__module__}.{f.__name__}",
                         f"{f.__module__}.{f.__name__}{str(detail[0])[:80]} returned {str(detail[1])[:120]} instead of raising FeatureNotSupported",
                         {"function": f"{f.__module__}.{f.__name__}"}))
        elif st == "dispatched-without-refusal":
            viol.append((f"returned:{f.__module__}.{f.__name__}",
                         f"{f.__module__}.{f.__name__}{str(detail[0])[:80]} was dispatched to ndpoly.__array_function__, which {detail[1]} "
                         f"instead of raising FeatureNotSupported", {"function": f"{f.__module__}.{f.__name__}"}))
        else:
            inconclusive.append(f"{f.__module__}.{f.__name__}: {detail}")
    for u in ufs:
        if u in numpoly.UFUNC_COLLECTION:
            continue
        n_eval += 1
        args = (p,) * u.nin
        try:
            out = u(*args)
            viol.append((f"returned:ufunc:{u.__name__}", f"numpy.{u.__name__}(poly) returned {str(out)[:100]} instead of raising FeatureNotSupported", {"ufunc": u.__name__}))
        except numpoly.FeatureNotSupported:
            refused += 1
        except Exception as exc:  # noqa: BLE001
            viol.append((f"ufunc-raise:{type(exc).__name__}", f"numpy.{u.__name__}(poly) raised {type(exc).__name__}: {exc} instead of FeatureNotSupported", {"ufunc": u.__name__}))
    # ufunc methods
    for u in ufs:
        if u.nin != 2 or u.nout != 1 or u.signature is not None:     # numpy itself refuses methods of gufuncs
            continue
        for meth, call in (("reduce", lambda: u.reduce(p)), ("accumulate", lambda: u.accumulate(p)), ("outer", lambda: u.outer(p, q)),
                           ("at", lambda: u.at(p.copy(), [0], q[:1])), ("reduceat", lambda: u.reduceat(p, [0]))):
            from numpoly import baseclass
            if (meth == "reduce" and u in baseclass.REDUCE_MAPPINGS and baseclass.REDUCE_MAPPINGS[u] in numpoly.UFUNC_COLLECTION) or \
                    (meth == "accumulate" and u in baseclass.ACCUMULATE_MAPPINGS and baseclass.ACCUMULATE_MAPPINGS[u] in numpoly.UFUNC_COLLECTION):
                continue
            n_eval += 1
            try:
                out = call()
                viol.append((f"method-returned:{meth}", f"numpy.{u.__name__}.{meth}(poly) returned {str(out)[:100]}", {"ufunc": u.__name__, "method": meth}))
            except numpoly.FeatureNotSupported:
                refused += 1
            except Exception as exc:  # noqa: BLE001
                viol.append((f"method-raise:{meth}:{type(exc).__name__}",
                             f"numpy.{u.__name__}.{meth}(poly) raised {type(exc).__name__}: {str(exc)[:100]} instead of FeatureNotSupported",
                             {"ufunc": u.__name__, "method": meth}))
    report.sample({"registered": sorted(registry)[:10], "refused": refused, "inconclusive": inconclusive[:5]})
    report.coverage.update({
        "evaluations": n_eval, "distinct_nontrivial": len(dispatched), "exhaustive": True,
        "rule": "every registry entry x generated argument tuples through the numpy, numpoly and method/operator spellings "
                "(distinct = (callable, spelling set) actually dispatched); every overridable numpy function (numpy, "
                "numpy.linalg, lib.*) and ufunc not in the registries called with a polynomial under 14 argument templates; "
                "ufunc methods reduce/accumulate/outer/at/reduceat for every binary ufunc",
        "registered_without_generator": skipped, "registered_non_numpy_callables": not_numpy, "refused": refused, "inconclusive_count": len(inconclusive),
        "inconclusive": inconclusive, "translator": "ok" if tr_ok else "failed",
        "source_facts": None if info is None else info["facts"],
        "universe": None if info is None else {"functions": info["n_functions"], "ufuncs": info["n_ufuncs"]},
    })
    kinds = set()
    for kind, what, rep in viol:
        kf = report.match_known(kind) or report.match_known(kind.split(":")[0])
        if kf:
            if kf["id"] not in kinds:
                report.known_finding(kf["id"], kf["what"] + " — e.g. " + what[:200])
            kinds.add(kf["id"])
            continue
        if kind in kinds:
            continue
        kinds.add(kind)
        report.violation("C08: " + what, {"kind_key": kind, **rep})
    if not report.violations and not ok:
        report.violation("C08: bridge/proof obligation no longer checks: "
                         + str(report.coverage.get("broken_obligation", {}).get("where") or report.notes),
                         {"kind": "broken-proof", "theorem": "Bridge/BridgeDispatch.v / Props/P_C08.v",
                          **report.coverage.get("broken_obligation", {})}, found_input=False)
    report.coverage["trusted_base"] = ["Coq 8.16.1 kernel + VM", "translator dispatch_tr.py (control flow by ast, registries by introspection)",
                                       "numpy.testing.overrides as the list of overridable callables"]
    report.assumptions += ["that numpy consults __array_function__/__array_ufunc__ at all is numpy's behaviour (observed by stream (b), not proved)",
                           "converters that dispatch only on like= (numpy.array, asarray, ...) are outside the claim"]


def replay(path):
    data = json.load(open(path))
    print(json.dumps(data["replay"], indent=1)[:2500])
    return 0
