"""C15 — option settings never change the mathematical result.

Every operation of the catalogue is evaluated under the shipped defaults and under many settings
of the eight boolean options (plus alternative display strings); value, shape and dtype must agree
and the operation must not start failing.  Ordering-based functions are varied over the non-sort
options only, str/repr over the non-display options only.  The Coq models (which take the option
record explicitly and for which irrelevance is a theorem, Props/P_C15.v) are run under the same
settings; the read-set of every module is regenerated and bridged.
"""
from __future__ import annotations

import json
import pickle

import numpy
import numpoly

from harness import core, gen, catalogue

HEADER = """From Coq Require Import ZArith.
From mathcomp Require Import all_ssreflect all_algebra ssrZ.
From NP Require Import Base Poly Harness.
Delimit Scope Z_scope with CZ.
Local Notation P := ZParr.
"""
TARGETS = ["Bridge/BridgeOptRead.vo", "Props/P_C15.vo"]

BOOLS = ["display_graded", "display_reverse", "display_inverse", "force_number_suffix",
         "retain_names", "retain_coefficients", "sort_graded", "sort_reverse"]
DISPLAY = {"display_graded", "display_reverse", "display_inverse", "display_exponent", "display_multiply"}
SORT = {"sort_graded", "sort_reverse"}


def opts_coq(o):
    return "(Opts %s %s %s %s)" % tuple(core.cbool(o[k]) for k in ("retain_coefficients", "retain_names", "sort_graded", "sort_reverse"))


def settings_for(rng, tier, defaults):
    out = []
    flip_all = {k: not defaults[k] for k in BOOLS}
    out.append(flip_all)
    for k in BOOLS:
        out.append({k: not defaults[k]})
    n_rand = 15 if tier == "quick" else 247
    seen = {tuple(sorted(s.items())) for s in out}
    if tier != "quick":
        import itertools
        for bits in itertools.product([False, True], repeat=8):
            s = dict(zip(BOOLS, bits))
            if tuple(sorted(s.items())) not in seen:
                out.append(s)
        return out
    while len(out) < 9 + n_rand:
        s = {k: rng.random() < 0.5 for k in BOOLS}
        if rng.random() < 0.3:
            s["display_exponent"] = rng.choice(["^", "**"])
            s["display_multiply"] = rng.choice(["", "*", " "])
        key = tuple(sorted(s.items()))
        if key not in seen:
            seen.add(key)
            out.append(s)
    return out


def snapshot(x):
    """Canonical, option-independent view of a result."""
    if isinstance(x, numpoly.ndpoly):
        try:
            sh, els = core.canon_elements(x)
            els = [tuple(e) for e in els]
        except ValueError:        # non-integral coefficients: the same canonical form (monomials by indeterminate
            sh = list(x.shape)    # index, unused names and zero terms dropped) with the values as they are
            idx = [core.name_index(nm) for nm in x.names]
            els = []
            for i in range(x.size):
                d = {}
                for e, c in zip(x.exponents.tolist(), x.coefficients):
                    v = numpy.asarray(c).ravel()[i].item()
                    if v:
                        m = tuple(sorted((n_, int(k)) for n_, k in zip(idx, e) if k))
                        d[m] = d.get(m, 0) + v
                els.append(tuple(sorted(d.items(), key=lambda t: t[0])))
        return ("poly", tuple(sh), str(x.dtype), tuple(els))
    if isinstance(x, (tuple, list)):
        return ("seq", tuple(snapshot(y) for y in x))
    if isinstance(x, numpy.ndarray) or isinstance(x, numpy.generic):
        a = numpy.asarray(x)
        return ("array", a.shape, a.dtype.kind, tuple(a.ravel().tolist()))
    if isinstance(x, (bool, int, float, str)) or x is None:
        return ("py", x)
    return ("other", repr(x))


def float_snapshot(x):
    """value-level view of a polynomial with non-integral coefficients (dtype excluded: it legitimately
    depends on which terms survive cleaning; the VALUE must not)"""
    els = []
    for i in range(x.size):
        d = {}
        for e, c in zip(x.exponents.tolist(), x.coefficients):
            v = float(numpy.asarray(c).ravel()[i])
            if v:
                d[tuple(e)] = d.get(tuple(e), 0.0) + v
        els.append(tuple(sorted(d.items())))
    return ("polyf", tuple(x.shape), tuple(els))


def run(report, tier, seed):
    from harness.translators import optread_tr
    tr_ok = True
    try:
        report.coverage["option_reads"] = optread_tr.generate(core.REPO, core.COQ)
    except Exception as exc:  # noqa: BLE001
        tr_ok = False
        report.notes.append(f"translator failed ({type(exc).__name__}: {exc}); relying on the correspondence alone")
    ok = core.prove(report, TARGETS if tr_ok else ["Proofs/OptIrrP.vo"])
    rng = core.rng_for(seed, "C15")
    cc = core.CoqCases("C15", HEADER, shard=250)
    viol = []
    defaults = numpoly.get_options(defaults=True)
    numpoly.set_options(**defaults)
    settings = settings_for(rng, tier, defaults)
    ncases = 240 if tier == "quick" else 500
    E = catalogue.entries()
    n_eval = 0
    nontrivial = set()
    dist = {}

    def mk(shape, const=False, nonzero=False):
        # a quarter of the operands have a coefficient dtype beside the compiled kernels' (small values: nothing wraps)
        d = numpy.int64 if rng.random() < 0.75 else rng.choice([numpy.int32, numpy.float32, numpy.int16, numpy.complex64])
        return gen.rand_poly(rng, tuple(shape), rng.choice([(0,), (0, 1), (1, 2), (2, 10)]), nterms=rng.choice([1, 2, 3]),
                             maxexp=2, dtype=d, raw=rng.random() < 0.3)

    def make_case():
        """returns (label, thunk, varies) — varies: the option keys the case may legitimately depend on"""
        kind = rng.choice(["construct", "construct_mixed", "division", "division", "binary", "binary", "power", "derivative", "derivative", "gradient", "hessian", "call", "call_partial",
                           "compute_call", "narrow_product", "narrow_product", "derivative_call", "derivative_call",
                           "index", "align", "pickle", "catalogue", "catalogue", "order", "text", "todict", "set_dimensions"])
        if kind == "construct":
            D = rng.randint(1, 3)
            names = tuple(f"q{i}" for i in sorted(rng.sample([0, 1, 2, 3, 10], D)))
            rows = list({tuple(rng.choice([0, 0, 1, 2]) for _ in range(D)) for _ in range(rng.randint(1, 4))})
            shape = gen.rand_shape(rng, 2)
            cols = [numpy.array([rng.choice([0, 0, 1, -2, 3]) for _ in range(int(numpy.prod(shape)) if shape else 1)]).reshape(shape) for _ in rows]
            return kind, (lambda: numpoly.polynomial_from_attributes(rows, cols, names)), set(), None
        if kind == "construct_mixed":
            # coefficient collections of mixed dtypes, a redundant (all-zero, non-constant) term first
            rows = [(1,), (2,), (0,)][: rng.randint(2, 3)]
            vals = [rng.choice([0, 0, 1, 2]), rng.choice([1.5, 2.5, -0.5]), rng.choice([0, 3])][: len(rows)]
            if rng.random() < 0.5:
                d = dict(zip(rows, vals))
                return kind, (lambda: float_snapshot(numpoly.polynomial(d))), set(), None
            cols = [numpy.array([v, v], dtype=(int if isinstance(v, int) else float)) for v in vals]
            return kind, (lambda: float_snapshot(numpoly.polynomial_from_attributes(rows, cols))), set(), None
        if kind == "division":
            # division is checked under the default retain options: only the other keys vary
            from harness.props import c05
            names = tuple(sorted(rng.sample([0, 1, 2], rng.choice([1, 2, 2, 3]))))
            s1, s2 = gen.broadcast_pair(rng, 2)
            g = c05.rand_poly(rng, s2, names, rng.randint(1, 3), 2, divisor=True)
            f = c05.rand_poly(rng, s1, names, rng.randint(1, 4), 3)

            def div():
                q, r, _ = c05.guarded_divmod(f, g)
                return float_snapshot(q), float_snapshot(r)
            return kind, div, {"retain_names", "retain_coefficients"}, None
        if kind == "narrow_product":
            # products / powers / prod of operands whose result dtype is beside the compiled kernels', over different
            # indeterminates of one variable array (each operand leaves some names unused)
            d = rng.choice(["int32", "float32", "int16", "complex64"])
            i, j, k = rng.sample(range(3), 3)
            form = rng.randrange(5)

            def thunk(d=d, i=i, j=j, k=k, form=form):
                q = numpoly.variable(3, dtype=d)
                if form == 0:
                    return q[i] * q[k]
                if form == 1:
                    return numpy.multiply(q[j], 3 * q[k] + 1)
                if form == 2:
                    return numpy.dtype(d).type(3) * q[j]
                if form == 3:
                    return (q[j] * q[k]) ** 2
                return numpoly.prod(numpoly.polynomial([[q[i], q[j] + 1], [q[k], 2 * q[i]]]).T, axis=0)
            return kind, thunk, set(), None
        if kind in ("binary", "power"):
            a, b = gen.rand_operand_pair(rng)
            if kind == "power":
                k = rng.randint(0, 3)
                a = a if isinstance(a, numpoly.ndpoly) else numpoly.polynomial(a)
                return kind, (lambda: a ** k), set(), ("pow", a, k)
            op = rng.choice(["+", "-", "*"])
            f = {"+": lambda: a + b, "-": lambda: a - b, "*": lambda: a * b}[op]
            return f"binary{op}", f, set(), ("bin", op, a, b)
        if kind in ("derivative", "gradient", "hessian"):
            p = mk(gen.rand_shape(rng, 2))
            if kind == "derivative" and rng.random() < 0.5:     # low exponents: a derivative can remove an indeterminate
                p = gen.rand_poly(rng, gen.rand_shape(rng, 1), rng.choice([(0, 1), (0, 1, 2), (1, 2)]), nterms=rng.choice([1, 2]),
                                  maxexp=1, dtype=numpy.int64, raw=False)
            if kind == "derivative":
                # one to three differentiation variables, by name or position (successive differentiation may
                # remove an indeterminate completely)
                vs = [rng.choice(p.names) if rng.random() < 0.6 else rng.randrange(len(p.names)) for _ in range(rng.choice([1, 2, 2, 3]))]
                return kind, (lambda: numpoly.derivative(p, *vs)), set(), None
            return kind, (lambda: getattr(numpoly, kind)(p)), set(), None
        if kind == "derivative_call":
            # differentiate under the setting, then EVALUATE the result (under the same setting) at every one of ITS names
            # with floats beyond 1 in magnitude: a term left in storage that should have been cleaned away (an exponent
            # wrapped below zero with a zero coefficient) turns the value into nan / OverflowError
            p = gen.rand_poly(rng, gen.rand_shape(rng, 2), rng.choice([(0,), (0, 1), (1, 2), (0, 1, 2)]), nterms=rng.choice([2, 3, 4]),
                              maxexp=3, dtype=rng.choice([numpy.int64, numpy.float64]), raw=False)
            fn = rng.choice(["derivative", "derivative", "gradient", "hessian"])
            vs = [rng.choice(p.names) if rng.random() < 0.6 else rng.randrange(len(p.names)) for _ in range(rng.choice([1, 1, 2]))]
            val = rng.choice([2.5, -3.0, numpy.float64(2.5), numpy.array([1.5, -2.5])])

            def thunk(p=p, fn=fn, vs=vs, val=val):
                d = numpoly.derivative(p, *vs) if fn == "derivative" else getattr(numpoly, fn)(p)
                out = d(**{nm: val for nm in d.names})
                return float_snapshot(out) if isinstance(out, numpoly.ndpoly) else snapshot(out)
            return kind, thunk, set(), None
        if kind == "compute_call":
            # the polynomial is COMPUTED under the setting (terms that cancel stay in storage under retain_coefficients=True)
            # and then evaluated with an argument wider than its coefficients for an indeterminate that only occurs in
            # cancelled terms: value, shape and dtype of the result must not depend on the setting
            a, b, c = rng.sample(range(3), 3)
            val = rng.choice([0.5, 2 + 0j, numpy.float32(0.5), numpy.array([0.5, 1.5]), numpy.int8(2)])
            form = rng.randrange(3)

            def thunk(a=a, b=b, c=c, val=val, form=form):
                q = numpoly.variable(3)
                if form == 0:
                    p = (q[a] + q[b]) * (q[a] - q[b]) + q[b] ** 2
                elif form == 1:
                    p = numpoly.polynomial([q[a] * q[b] - q[b] * q[a] + 1, q[a]])
                else:
                    p = (q[a] + 2 * q[b] + q[c]) - 2 * q[b] + 3
                return p(**{f"q{b}": val})
            # retain_names=False removes the indeterminate the keyword names (it is unused after the cancellation), which
            # legitimately turns the call into a TypeError: that option is not varied for this case
            return kind, thunk, {"retain_names"}, None
        if kind in ("call", "call_partial"):
            p = mk(gen.rand_shape(rng, 2))
            vals = {nm: rng.randint(-3, 3) for nm in p.names}
            if kind == "call_partial" and len(vals) > 1:
                vals.pop(rng.choice(sorted(vals)))
            return kind, (lambda: p(**vals)), set(), None
        if kind == "index":
            s = catalogue._shape(rng, 1, 2)
            p = mk(s)
            ix = rng.randrange(s[0])
            return kind, (lambda: (p[ix], p[..., 0], p[::-1])), set(), None
        if kind == "align":
            a, b = gen.rand_operand_pair(rng)
            return kind, (lambda: numpoly.align_polynomials(a, b)), set(), None
        if kind == "pickle":
            p = mk(gen.rand_shape(rng, 2))
            return kind, (lambda: pickle.loads(pickle.dumps(p))), set(), None
        if kind == "catalogue":
            name = rng.choice(["sum", "cumsum", "prod", "mean", "concatenate", "stack", "transpose", "reshape", "repeat", "where",
                               "diff", "inner", "outer", "matmul", "expand_dims", "split", "diagonal", "tile", "broadcast_arrays",
                               "square", "negative", "absolute", "equal", "not_equal", "isclose", "count_nonzero", "nonzero",
                               "logical_and", "any", "all"])
            args, kw = E[name](rng, mk)
            return f"numpy.{name}", (lambda: getattr(numpoly, name)(*args, **kw)), set(), None
        if kind == "order":
            a, b = mk((2,)), mk((2,))
            f = rng.choice([lambda: a < b, lambda: a >= b, lambda: numpoly.maximum(a, b), lambda: numpoly.argmax(a),
                            lambda: numpoly.amin(a), lambda: numpoly.sortable_proxy(a), lambda: numpoly.lead_exponent(a),
                            lambda: numpoly.lead_coefficient(a)])
            return kind, f, SORT, None
        if kind == "text":
            p = mk(gen.rand_shape(rng, 2))
            return kind, (lambda: (str(p), repr(p))), DISPLAY, None
        if kind == "todict":
            p = mk(())
            return kind, (lambda: sorted((k, numpy.asarray(v).tolist()) for k, v in p.todict().items() if numpy.any(v))), set(), None
        p = gen.rand_poly(rng, gen.rand_shape(rng, 1), (0, 1), nterms=3, maxexp=2, dtype=numpy.int64)
        d = rng.randint(1, 4)
        return "set_dimensions", (lambda: numpoly.set_dimensions(p, d)), set(), None

    for c in range(ncases):
        label, thunk, varies, coq = make_case()
        dist[label] = dist.get(label, 0) + 1
        numpoly.set_options(**defaults)
        try:
            ref = ("ok", snapshot(thunk()))
        except Exception as exc:  # noqa: BLE001
            ref = ("err", type(exc).__name__)
        for s in (settings if tier != "quick" else settings[:9] + rng.sample(settings[9:], 6)):
            s_eff = {k: v for k, v in s.items() if k not in varies}
            if not s_eff:
                continue
            n_eval += 1
            try:
                with numpoly.global_options(**s_eff):
                    got = ("ok", snapshot(thunk()))
                    full = numpoly.get_options()
            except Exception as exc:  # noqa: BLE001
                got = ("err", type(exc).__name__)
                full = None
            changed = [k for k, v in s_eff.items() if defaults.get(k) != v]
            nontrivial.add((label, tuple(sorted(changed))))
            if got != ref:
                viol.append((f"{label}:{'+'.join(sorted(changed))[:60]}",
                             f"{label} under {s_eff}: {str(got)[:300]}  —  under the defaults: {str(ref)[:300]}",
                             {"operation": label, "setting": s_eff}))
                break
            if coq and full and got[0] == "ok" and rng.random() < 0.5:
                o = opts_coq(full)
                if coq[0] == "bin":
                    _, op, a, b = coq
                    f = {"+": "padd", "-": "psub", "*": "pmul"}[op]
                    with numpoly.global_options(**s_eff):
                        r = thunk()
                    sh, els = core.canon_elements(r)
                    cc.add(f"chk (@{f} ZR {o} {core.coq_parr(core.as_layout(a))} {core.coq_parr(core.as_layout(b))}) (EOk {core.coq_obs(sh, els)})",
                           {"operation": label, "setting": s_eff})
                else:
                    _, a, k = coq
                    with numpoly.global_options(**s_eff):
                        r = thunk()
                    sh, els = core.canon_elements(r)
                    cc.add(f"chk (@ppow ZR {o} {core.coq_parr(core.as_layout(a))} {k}) (EOk {core.coq_obs(sh, els)})",
                           {"operation": label, "setting": s_eff})
        report.sample({"operation": label, "reference": str(ref)[:120]}, cap=6)
    numpoly.set_options(**defaults)

    failed, errors = cc.run()
    report.coverage.update({
        "evaluations": n_eval, "distinct_nontrivial": len(nontrivial), "coq_cases": len(cc.cases),
        "traces_validated_against_impl": len(cc.cases), "operations": dist, "settings": len(settings),
        "exhaustive": tier != "quick",
        "rule": "operation catalogue (construct, + - * **, derivative/gradient/hessian, full/partial evaluation, indexing, "
                "align, pickle, 30 registered numpy functions, todict, set_dimensions; ordering-based functions under non-sort "
                "options; str/repr under non-display options) x settings of the 8 boolean options (all 256 in the thorough "
                "tier; all-flipped, the 8 single flips and 6 random ones per case in the quick tier, some with alternative "
                "display strings); reference = the same call under the shipped defaults; distinct by (operation, changed keys)",
        "translator": "ok" if tr_ok else "failed",
    })
    # ---- construction WITHOUT names of exponents with an unused leading column (known finding D46): the columns are named
    #      by position, so pruning the unused one before the default names are given shifts the others
    try:
        numpoly.set_options(**defaults)
        ref_ = snapshot(numpoly.polynomial({(0, 1): 3}))
        with numpoly.global_options(retain_names=False):
            got_ = snapshot(numpoly.polynomial({(0, 1): 3}))
        if got_ != ref_:
            viol.append(("construct:no-names-pruned", f"numpoly.polynomial({{(0, 1): 3}}) is {got_} under retain_names=False and {ref_} under the defaults",
                         {"input": "polynomial({(0, 1): 3})"}))
    except Exception as exc:  # noqa: BLE001
        viol.append(("construct:no-names-pruned:raise", f"numpoly.polynomial({{(0, 1): 3}}) raised {type(exc).__name__}: {exc}", {}))
    finally:
        numpoly.set_options(**defaults)
    seen = set()
    for kind, what, rep in viol:
        kf = report.match_known(kind)
        if kf:
            if kind not in seen:
                seen.add(kind)
                report.known_finding(kf["id"], kf["what"] + " — e.g. " + what[:200])
            continue
        if kind in seen:
            continue
        seen.add(kind)
        report.violation("C15: " + what, {"kind": kind, **rep})
    if not report.violations:
        for k, path, log in errors:
            report.violation(f"correspondence shard did not evaluate: {log[-300:]}", {"kind": "shard-error", "log": log}, found_input=False)
        for idx in failed[:3]:
            term, meta = cc.cases[idx]
            report.violation(f"model and implementation disagree on {meta}", {"kind": "correspondence", "term": term[:1500], **meta})
        if not ok and not report.violations:
            report.violation("C15: proof obligation no longer checks: " + str(report.coverage.get("broken_obligation", {}).get("where")),
                             {"kind": "broken-proof", **report.coverage.get("broken_obligation", {})}, found_input=False)
    report.coverage["trusted_base"] = ["Coq 8.16.1 kernel + VM", "MathComp / SsrMultinomials",
                                       "translator optread_tr.py (option reads by ast, fail closed)"]
    report.assumptions += ["integer coefficients", "division is covered by C05's check (default retain options)"]


def replay(path):
    data = json.load(open(path))
    print(json.dumps(data["replay"], indent=1)[:3000])
    return 0
