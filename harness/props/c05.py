"""C05 — polynomial division terminates and satisfies dividend = q*divisor + r.

Implementation side: poly_divmod (and / % divmod with their reflected forms) on generated
dividend/divisor arrays, each call in a forked child with an iteration cap raised from inside the
loop (a wrapper around get_division_candidate) and a hard time limit; the identity, the reducedness
of the remainder, the constant-divisor and exact-multiple cases and the univariate degree bound are
decided in exact rational arithmetic.  Model side: Model/Divmod.v (theorems in Props/P_C05.v) is run
on the same inputs over MathComp's rationals and must return the same quotient and remainder.
"""
from __future__ import annotations

import json
from fractions import Fraction

import numpy
import numpoly

from harness import core, gen, exact

HEADER = """From mathcomp Require Import all_ssreflect all_algebra.
From NP Require Import Base Divmod DivmodCut.
Open Scope ring_scope.
Definition Q := [fieldType of rat].
Definition QN := [numFieldType of rat].
Definition mq (a : int) (b : nat) : rat := a%:Q / (Posz b)%:Q.
Definition same (x y : spoly Q) : bool := perm_eq (norm x) (norm y).
Fixpoint all2r (xs ys : seq (spoly Q * spoly Q)) : bool :=
  match xs, ys with
  | [::], [::] => true
  | x :: xs', y :: ys' => same x.1 y.1 && same x.2 y.2 && all2r xs' ys'
  | _, _ => false
  end.
Definition chkdiv (fuel : nat) (fs gs : seq (spoly Q)) (expect : seq (spoly Q * spoly Q)) : bool :=
  if divmod fuel fs gs is Ok out then all2r out expect else false.
Definition chkcut (eps : rat) (fuel : nat) (fs gs : seq (spoly Q)) (expect : seq (spoly Q * spoly Q)) : bool :=
  if @divmod_cut QN eps fuel fs gs is Ok out then all2r out expect else false.
"""
TARGETS = ["Bridge/BridgeDivmod.vo", "Props/P_C05.vo"]
CAP = 300


def frac(x):
    if isinstance(x, (int, numpy.integer)):
        return Fraction(int(x))
    return Fraction(float(x))


def cq(f):
    f = Fraction(f)
    n = f.numerator
    return f"(mq ({'Posz %d' % n if n >= 0 else 'Negz %d' % (-n - 1)}) {f.denominator})"


def elems(p, names):
    """per flat element: {exponent tuple over `names`: Fraction}"""
    pn = list(p.names)
    pos = [pn.index(nm) if nm in pn else None for nm in names]
    rows = p.exponents.tolist()
    cols = [numpy.asarray(c).ravel().tolist() for c in p.coefficients]
    out = []
    for i in range(p.size):
        d = {}
        for r, c in zip(rows, cols):
            if c[i] != 0:
                m = tuple(int(r[k]) if k is not None else 0 for k in pos)
                d[m] = d.get(m, 0) + frac(c[i])
        out.append({m: v for m, v in d.items() if v != 0})
    return out


def coq_spoly(d):
    return core.cseq(f"({core.cnats(m)}, {cq(c)})" for m, c in sorted(d.items()))


def mkey(m):            # numpy.lexsort(exponents.T): last variable most significant
    return tuple(reversed(m))


def pmul(a, b):
    out = {}
    for m1, c1 in a.items():
        for m2, c2 in b.items():
            m = tuple(x + y for x, y in zip(m1, m2))
            out[m] = out.get(m, 0) + c1 * c2
    return {m: c for m, c in out.items() if c != 0}


def padd(a, b, s=1):
    out = dict(a)
    for m, c in b.items():
        out[m] = out.get(m, 0) + s * c
    return {m: c for m, c in out.items() if c != 0}


def guarded_divmod(f, g, cutoff=None):
    """poly_divmod with an iteration cap raised from inside the loop (and, for the cut-off stream, with the cut-off of
    get_division_candidate given explicitly instead of its default)."""
    import numpoly.poly_function.divide.divmod as dm
    orig = dm.get_division_candidate
    count = [0]

    def wrapper(*a, **k):
        count[0] += 1
        if count[0] > CAP:
            raise RuntimeError("iteration cap")
        if cutoff is not None:
            k["cutoff"] = cutoff
        return orig(*a, **k)
    dm.get_division_candidate = wrapper
    try:
        q, r = numpoly.poly_divmod(f, g)
        return q, r, count[0]
    finally:
        dm.get_division_candidate = orig


def run_case(f, g, cutoff=None):
    """executed in a forked child: returns picklable observations"""
    q, r, iters = guarded_divmod(f, g, cutoff)
    names = sorted(set(numpoly.aspolynomial(f).names) | set(numpoly.aspolynomial(g).names) | set(q.names) | set(r.names), key=core.name_index)
    fb, gb = numpoly.broadcast_arrays(numpoly.aspolynomial(f), numpoly.aspolynomial(g))
    return {"names": names, "shape": list(q.shape), "rshape": list(r.shape), "bshape": list(fb.shape), "iters": iters,
            "f": elems(fb, names), "g": elems(gb, names), "q": elems(q, names), "r": elems(r, names)}


def run_ops(f, g):
    """operator / function spellings (forked): canonical snapshots"""
    import operator
    out = {}

    def snap(x):
        if isinstance(x, tuple):
            return tuple(snap(y) for y in x)
        x = numpoly.aspolynomial(x)
        nm = sorted(x.names, key=core.name_index)
        return (tuple(x.shape), tuple(nm), tuple(tuple(sorted(e.items())) for e in elems(x, nm)))
    calls = {"poly_divide": lambda: numpoly.poly_divide(f, g), "poly_remainder": lambda: numpoly.poly_remainder(f, g),
             "poly_divmod": lambda: numpoly.poly_divmod(f, g)}
    if isinstance(f, numpoly.ndpoly) or isinstance(g, numpoly.ndpoly):
        calls.update({"/": lambda: operator.truediv(f, g), "%": lambda: operator.mod(f, g), "divmod": lambda: divmod(f, g)})
    for k, c in calls.items():
        try:
            out[k] = ("ok", snap(c()))
        except Exception as exc:  # noqa: BLE001
            out[k] = ("err", type(exc).__name__)
    return out


def rand_divisor_coef(rng):
    return rng.choice([1, -1, 2, -2, 4, 0.5, -0.5, 1, 1])


def rand_poly(rng, shape, names, nterms, maxexp, divisor=False, allow_zero=False):
    D = len(names)
    size = int(numpy.prod(shape)) if shape else 1
    rows = set()
    while len(rows) < nterms:
        rows.add(tuple(rng.choice([0, 0, 1, 1, 2, maxexp]) for _ in range(D)))
    rows = sorted(rows)
    cols = []
    for _ in rows:
        if divisor:
            c = [rand_divisor_coef(rng) if rng.random() < 0.8 else 0 for _ in range(size)]
        else:
            c = [rng.choice([-3, -2, -1, 0, 1, 2, 3, 4]) for _ in range(size)]
        cols.append(numpy.array(c, dtype=float if divisor else numpy.int64).reshape(shape))
    if divisor and not allow_zero:      # no element identically zero unless asked for
        tot = sum(numpy.abs(c) for c in cols)
        if numpy.any(tot == 0):
            cols[0] = numpy.where(tot == 0, 1.0, cols[0])
    return numpoly.polynomial_from_attributes(rows, cols, tuple(f"q{n}" for n in names))


def run(report, tier, seed):
    from harness.translators import divmod_tr
    tr_ok, facts = True, {}
    try:
        facts = divmod_tr.generate(core.REPO, core.COQ)
        report.coverage["source_facts"] = facts
    except Exception as exc:  # noqa: BLE001
        tr_ok = False
        report.notes.append(f"translator failed ({type(exc).__name__}: {exc}); relying on the correspondence alone")
    ok = core.prove(report, TARGETS if tr_ok else ["Proofs/DivmodP.vo"])
    rng = core.rng_for(seed, "C05")
    cc = core.CoqCases("C05", HEADER, shard=60)
    viol = []
    n = 160 if tier == "quick" else 3000
    n_eval = 0
    nontrivial = set()
    dist = {"kinds": {}, "iterations": {}}
    # corpus first: inputs that looped forever before the leading-term rule
    q0, q1 = numpoly.variable(2)
    corpus = [("corpus:D8a", q0 ** 3 + q0 * q1 + 1, q0 + q1), ("corpus:D8b", q0 * q1 ** 2, q1 ** 2 - 2 * q0),
              ("corpus:array", numpoly.polynomial([q0 ** 2 * q1, q1 ** 3 + q0]), numpoly.polynomial([q0 + q1, q1 - 2 * q0]))]
    cases = list(corpus)
    for _ in range(n):
        kind = rng.choice(["general", "general", "exact", "constant", "univariate", "array_mixed", "numeric_left", "incomparable", "small_ratio"])
        names = tuple(sorted(rng.sample([0, 1, 2], rng.choice([1, 2, 2, 3]))))
        s1, s2 = gen.broadcast_pair(rng, 2)
        if kind == "univariate":
            names = (rng.choice([0, 1]),)
        if kind == "constant":
            g = numpy.array([rand_divisor_coef(rng) for _ in range(int(numpy.prod(s2)) if s2 else 1)]).reshape(s2)
            if rng.random() < 0.5:
                g = numpoly.polynomial(g)
            f = rand_poly(rng, s1, names, rng.randint(1, 4), 3)
        elif kind == "small_ratio":
            # quotient coefficients of magnitude 2**-40 .. 2**-80 (all operands dyadic: every float operation is exact):
            # far above the documented 1e-30 cut-off of get_division_candidate, far below one unit of float64 round-off
            # relative to the other coefficients - such terms must still be divided out
            k = rng.randint(40, 80)
            form = rng.randrange(3)
            if form == 0:        # a huge constant divisor: the true quotient, remainder 0
                kind = "constant"
                g = rng.choice([2.0 ** k, numpoly.polynomial(2.0 ** k), numpy.full(s2, 2.0 ** k)])
                f = rand_poly(rng, s1, names, rng.randint(1, 4), 3)
            elif form == 1:      # an exact multiple with a tiny cofactor
                kind = "exact"
                g = rand_poly(rng, s2, names, rng.randint(1, 3), 2, divisor=True)
                f = (rand_poly(rng, s1, names, rng.randint(1, 3), 2) * 2.0 ** -k) * g
            else:                # a general division of a dividend that is tiny throughout (one common scale: exact)
                kind = "general"
                g = rand_poly(rng, s2, names, rng.randint(1, 3), 2, divisor=True)
                f = rand_poly(rng, s1, names, rng.randint(1, 4), 3) * 2.0 ** -k
        elif kind == "exact":
            g = rand_poly(rng, s2, names, rng.randint(1, 3), 2, divisor=True)
            h = rand_poly(rng, s1, names, rng.randint(1, 3), 2)
            f = h * g
        elif kind == "numeric_left":
            g = rand_poly(rng, s2, names, rng.randint(1, 2), 2, divisor=True)
            f = rng.choice([3, 2.0, numpy.array([1, 4])]) if not s1 or rng.random() < 0.5 else numpy.arange(1, 1 + int(numpy.prod(s1))).reshape(s1)
            try:
                numpy.broadcast_shapes(numpy.shape(f), s2)
            except ValueError:
                f = 3
        elif kind == "incomparable":
            names = (0, 1)
            g = rng.choice([q1 ** 2 - 2 * q0, q0 + q1, q0 * q1 - 1, q0 ** 2 + q1 ** 2, 2 * q1 - q0 ** 2])
            f = rand_poly(rng, s1, names, rng.randint(2, 4), 3)
        elif kind == "array_mixed":
            s2 = s2 or (2,)
            g = rand_poly(rng, s2, names, rng.randint(2, 3), 2, divisor=True, allow_zero=True)
            f = rand_poly(rng, s1, names, rng.randint(1, 4), 3)
            try:
                numpy.broadcast_shapes(s1, s2)
            except ValueError:
                f = rand_poly(rng, s2, names, rng.randint(1, 4), 3)
        else:
            g = rand_poly(rng, s2, names, rng.randint(1, 3), 2, divisor=True)
            f = rand_poly(rng, s1, names, rng.randint(1, 4), 3)
        cases.append((kind, f, g))

    for kind, f, g in cases:
        dist["kinds"][kind] = dist["kinds"].get(kind, 0) + 1
        desc = f"poly_divmod({gen.describe(f)}, {gen.describe(g)})"
        status, obs = core.forked(run_case, f, g, timeout=60)
        n_eval += 1
        rep = {"dividend": gen.describe(f), "divisor": gen.describe(g)}
        if status == "timeout":
            viol.append(("divmod:nontermination", f"{desc} did not return within 60 s", rep))
            continue
        if status == "exc":
            if "iteration cap" in obs:
                viol.append(("divmod:nontermination", f"{desc} was still iterating after {CAP} iterations (the loop does not terminate)", rep))
            else:
                viol.append((f"divmod:raise:{obs.split(':')[0]}", f"{desc} raised {obs}", rep))
            continue
        if status != "ok":
            viol.append(("divmod:died", f"{desc}: child died ({obs})", rep))
            continue
        nm = obs["names"]
        if obs["shape"] != obs["bshape"] or obs["rshape"] != obs["bshape"]:
            viol.append(("divmod:shape", f"{desc}: quotient/remainder shapes {obs['shape']}/{obs['rshape']}, operands broadcast to {obs['bshape']}", rep))
            continue
        it = obs["iters"]
        dist["iterations"][min(it, 20)] = dist["iterations"].get(min(it, 20), 0) + 1
        bad = False
        for i, (fe, ge, qe, re_) in enumerate(zip(obs["f"], obs["g"], obs["q"], obs["r"])):
            if padd(pmul(qe, ge), re_) != fe:
                viol.append(("divmod:identity", f"{desc}: element {i}: q*divisor + r = {padd(pmul(qe, ge), re_)} differs from the dividend {fe}", rep))
                bad = True
                break
            if ge:
                lead = max(ge, key=mkey)
                div = [m for m in re_ if all(a <= b for a, b in zip(lead, m))]
                if div:
                    viol.append(("divmod:unreduced", f"{desc}: element {i}: remainder term {div[0]} is divisible by the divisor's leading monomial {lead}", rep))
                    bad = True
                    break
                if not any(lead) and re_:
                    viol.append(("divmod:constant", f"{desc}: element {i}: non-zero remainder {re_} for a constant divisor", rep))
                    bad = True
                    break
            else:
                if qe or re_ != fe:
                    viol.append(("divmod:zero-divisor", f"{desc}: element {i}: divisor 0 but q={qe}, r={re_}", rep))
                    bad = True
                    break
        if bad:
            continue
        if it >= 3 or kind in ("incomparable", "array_mixed"):
            nontrivial.add((kind, tuple(tuple(sorted(e)) for e in obs["g"]), it))
        if kind == "exact" and any(r for r in obs["r"]):
            viol.append(("divmod:exact-multiple", f"{desc}: the dividend is a multiple of the divisor but the remainder is {obs['r']}", rep))
            continue
        # ---- the Coq model on the same element lists --------------------------------------------
        # (the model's rationals are MathComp's, over unary naturals: coefficients beyond a few thousand in numerator or
        #  denominator - the small_ratio stream - are judged by the exact arithmetic above only)
        small = all(abs(v.numerator) < 5000 and v.denominator < 5000
                    for part in ("f", "g", "q", "r") for e in obs[part] for v in e.values())
        if len(obs["f"]) <= 6 and it <= 40 and small:
            exp = core.cseq(f"({coq_spoly(qe)}, {coq_spoly(re_)})" for qe, re_ in zip(obs["q"], obs["r"]))
            cc.add(f"chkdiv {it + 2} {core.cseq(coq_spoly(e) for e in obs['f'])} {core.cseq(coq_spoly(e) for e in obs['g'])} {exp}",
                   {"kind": kind, **rep, "iterations": it})
        # ---- spellings -----------------------------------------------------------------------------
        if rng.random() < 0.4:
            st, ops = core.forked(run_ops, f, g, timeout=60)
            if st == "ok":
                ref = ops["poly_divmod"]
                pairs = [("poly_divide", 0), ("poly_remainder", 1), ("/", 0), ("%", 1)]
                for k, comp in pairs:
                    if k in ops and ref[0] == "ok" and (ops[k][0] != "ok" or ops[k][1] != ref[1][comp]):
                        viol.append((f"divmod:spelling:{k}", f"{k} on ({rep['dividend']}, {rep['divisor']}) = {str(ops[k])[:200]} differs from "
                                     f"component {comp} of poly_divmod {str(ref[1][comp])[:200]}", rep))
                if "divmod" in ops and ops["divmod"] != ref:
                    viol.append(("divmod:spelling:divmod", f"divmod() differs from poly_divmod on ({rep['dividend']}, {rep['divisor']})", rep))
        report.sample({"kind": kind, **rep, "iterations": it}, cap=6)

    # ---- numpy scalars on the left of / % divmod (a "number on the left") ------------------------------------------
    import operator
    for sc in (numpy.float64(6), numpy.int64(4), numpy.float32(3)):
        for g in (q0, q0 + 1, 2 * q1 - q0):
            n_eval += 1
            for nm, opf, fn in (("/", operator.truediv, numpoly.poly_divide), ("%", operator.mod, numpoly.poly_remainder)):
                try:
                    want = fn(sc, g)
                except Exception:  # noqa: BLE001
                    continue
                try:
                    got = opf(sc, g)
                    bad = not numpy.all(numpy.asarray(got == want))
                    how = f"= {got}"
                except Exception as exc:  # noqa: BLE001
                    bad, how = True, f"raised {type(exc).__name__}"
                if bad:
                    viol.append(("divmod:numpy-scalar-left", f"{type(sc).__name__}({sc}) {nm} ({g}) {how}; poly_{'divide' if nm == '/' else 'remainder'} "
                                                             f"gives {want} (and a Python number on the left agrees with it)",
                                 {"left": repr(sc), "divisor": str(g), "operator": nm}))

    # ---- the cut-off rule itself, with cut-offs large enough to matter (1/4 .. 2): the model of the skipping rule
    #      (Model/DivmodCut.v) against get_division_candidate(..., cutoff=eps); the identity must hold whatever is skipped
    ncut = 40 if tier == "quick" else 600
    for _ in range(ncut):
        eps = rng.choice([Fraction(1, 4), Fraction(1, 2), Fraction(1), Fraction(2)])
        names = tuple(sorted(rng.sample([0, 1, 2], rng.choice([1, 2, 2]))))
        s1, s2 = gen.broadcast_pair(rng, 1)
        g = rand_poly(rng, s2, names, rng.randint(1, 3), 2, divisor=True, allow_zero=rng.random() < 0.2)
        f = rand_poly(rng, s1, names, rng.randint(1, 4), 3)
        if rng.random() < 0.5:
            f = f * rng.choice([0.5, 0.25, 0.125])
        desc = f"poly_divmod({gen.describe(f)}, {gen.describe(g)}) with cutoff={eps}"
        rep = {"dividend": gen.describe(f), "divisor": gen.describe(g), "cutoff": str(eps)}
        status, obs = core.forked(run_case, f, g, float(eps), timeout=60)
        n_eval += 1
        dist["kinds"]["cutoff"] = dist["kinds"].get("cutoff", 0) + 1
        if status != "ok":
            viol.append(("divmod:cutoff:" + status, f"{desc}: {status} {str(obs)[:200]}", rep))
            continue
        for i, (fe, ge, qe, re_) in enumerate(zip(obs["f"], obs["g"], obs["q"], obs["r"])):
            if padd(pmul(qe, ge), re_) != fe:
                viol.append(("divmod:cutoff:identity", f"{desc}: element {i}: q*divisor + r = {padd(pmul(qe, ge), re_)} differs from the dividend {fe}", rep))
                break
        else:
            small = all(abs(v.numerator) < 5000 and v.denominator < 5000
                        for part in ("f", "g", "q", "r") for e in obs[part] for v in e.values())
            if len(obs["f"]) <= 6 and obs["iters"] <= 40 and small:
                exp = core.cseq(f"({coq_spoly(qe)}, {coq_spoly(re_)})" for qe, re_ in zip(obs["q"], obs["r"]))
                cc.add(f"chkcut {cq(eps)} {obs['iters'] + 2} {core.cseq(coq_spoly(e) for e in obs['f'])} {core.cseq(coq_spoly(e) for e in obs['g'])} {exp}",
                       {"kind": "cutoff", **rep, "iterations": obs["iters"]})

    failed, errors = cc.run(timeout=1200)
    report.coverage.update({
        "evaluations": n_eval, "distinct_nontrivial": len(nontrivial), "coq_cases": len(cc.cases),
        "traces_validated_against_impl": len(cc.cases), "distribution": dist, "iteration_cap": CAP,
        "rule": "dividend/divisor pairs over 1-3 indeterminates: general, exact multiples (h*g), constant divisors (numbers, "
                "arrays, constant polynomials), univariate, arrays whose elements have different leading terms or are zero, "
                "numbers/arrays on the left, divisors with several incomparable top terms; divisor coefficients in "
                "{+-1,+-2,4,+-0.5} so that every quotient coefficient is exact in binary floating point; broadcasting "
                "shapes; each call in a forked child with an iteration cap and a time limit; non-trivial = >= 3 iterations "
                "or an array/incomparable divisor; distinct by (kind, divisor elements, iterations)",
        "translator": "ok" if tr_ok else "failed",
    })
    seen = set()
    for kind, what, rep in viol:
        kf = report.match_known(kind)
        if kf:
            if kind not in seen:
                seen.add(kind)
                report.known_finding(kf["id"], kf["what"] + " — e.g. " + what[:200])
            continue
        if kind in seen:
            continue
        seen.add(kind)
        report.violation("C05: " + what, {"kind": kind, **rep})
    if not report.violations:
        for k, path, log in errors:
            report.violation(f"correspondence shard did not evaluate: {log[-300:]}", {"kind": "shard-error", "log": log}, found_input=False)
        for idx in failed[:3]:
            term, meta = cc.cases[idx]
            report.violation(f"model and implementation disagree on {meta}", {"kind": "correspondence", "term": term[:1500], **meta})
        if not ok and not report.violations:
            off = [k for k, v in facts.items() if not v]
            report.violation("C05: proof obligation no longer checks: " + str(report.coverage.get("broken_obligation", {}).get("where"))
                             + (f"; source facts that no longer hold: {off}" if off else ""),
                             {"kind": "broken-proof", **report.coverage.get("broken_obligation", {})}, found_input=False)
    report.coverage["trusted_base"] = ["Coq 8.16.1 kernel + VM", "MathComp (rat) / SsrMultinomials",
                                       "translator divmod_tr.py (statement shapes by ast)", "exact rational arithmetic of the harness"]
    report.assumptions += ["floating-point rounding is outside the model: coefficients are chosen so that all quotients are exact",
                           "the cut-off rule of get_division_candidate is modelled (DivmodCut.v) and run against the code with cut-offs 1/4..2; identity and termination are proved for every cut-off; the default's value 1e-30 is tied by divmod_tr (the model's unary rationals cannot evaluate it)",
                           "default retain options (C15 varies options on other operations)"]


def replay(path):
    data = json.load(open(path))
    print(json.dumps(data["replay"], indent=1)[:3000])
    return 0
