"""C13 — pickle, copy and text save/load round-trip polynomial arrays."""
from __future__ import annotations

import copy
import io
import json
import logging
import os
import pathlib
import pickle
import shutil
import tempfile

import numpy
import numpoly

from harness import core, gen
from harness.props.c04 import lay_coq
from harness.translators import key_tr, persist_tr

HEADER = """From Coq Require Import ZArith NArith String.
From mathcomp Require Import all_ssreflect all_algebra ssrZ.
From NP Require Import Base Poly Harness Key Persist GenKey GenPersist.
Delimit Scope Z_scope with CZ.
Delimit Scope N_scope with BN.
Local Notation P := ZParr.
Definition off : N := gen_offset.
(* pickle: model reconstruction vs the layout of the implementation's unpickled object *)
Definition pk_ok (o : opts) (f : rflags) (p : zparr) (e : lexpect) : bool :=
  chk_layout (@pickle_roundtrip ZR o f p) e && chk_layout (Ok (@pcopy ZR p)) (LOk (names p) (shape p) (rows p) (cols p)).
(* header: the first line the implementation wrote vs the model's print *)
Definition hdr_ok (version comments : seq N) (p : zparr) (line : seq N) : bool :=
  list_eqb (@savetxt_header ZR off version comments p) line.
(* loadtxt: model run on the implementation's first line and on the array numpy.loadtxt returns *)
Inductive lexp := XPlain | XErr of err | XPoly of seq nat & expect.
Definition ld_ok (o : opts) (fx : tfix) (comments line : seq N) (a : loaded ZR) (x : lexp) : bool :=
  match @loadtxt_model ZR o fx off comments line a, x with
  | LdPlain, XPlain => true
  | LdErr e, XErr e' => err_eqb e e'
  | LdPoly p, XPoly ns e => (names p == ns) && chk_wf (Ok p) e
  | _, _ => false
  end.
Definition seen_ok (fileobj chain : bool) (nlines got : nat) : bool :=
  size (@lines_seen nat fileobj chain (iota 0 nlines)) == got.
"""
TARGETS = ["Bridge/BridgeKey.vo", "Bridge/BridgePersist.vo", "Props/P_C13.vo"]

K_PICKLE = "pickle:redundant-zero-terms"
K_0D = "loadtxt:0-d"
K_SINGLE = "loadtxt:single-term"
K_PLAIN = "loadtxt:file-object-plain-first-row"


# --------------------------------------------------------------------------------------------
# helpers
# --------------------------------------------------------------------------------------------
def cN(v):
    return f"{int(v)}%BN"


def cstr(s):
    return core.cseq(cN(ord(ch)) for ch in s)


def layout(p):
    lay = core.poly_layout(p)
    return lay


def exact_state(p):
    """Everything C13 says a pickle / copy reproduces."""
    return (tuple(p.shape), str(p.dtype), tuple(p.names), p.exponents.tolist(),
            [numpy.asarray(c).tolist() for c in p.coefficients], [numpy.asarray(c).dtype.str for c in p.coefficients])


def has_redundant_zero_term(p):
    return any(any(r) and not numpy.any(c) for r, c in zip(p.exponents.tolist(), p.coefficients)) or \
        (len(p.exponents) > 1 and any(not any(r) and not numpy.any(c) for r, c in zip(p.exponents.tolist(), p.coefficients))
         and not any(numpy.any(c) for c in p.coefficients))


def pruned_names(p):
    used = [bool(numpy.any(p.exponents[:, k])) for k in range(len(p.names))]
    if not any(used):
        used[0] = True
    return tuple(n for n, u in zip(p.names, used) if u)


def cleaned(p, rc, rn):
    return numpoly.polynomial_from_attributes(p.exponents, p.coefficients, p.names, p.dtype,
                                              retain_coefficients=rc, retain_names=rn)


def mutate_storage(c):
    """Overwrite every coefficient of c through its raw structured view."""
    v = c.values
    for key in c.keys:
        v[key][...] = 77


def coq_loaded(arr):
    a = numpy.asarray(arr)
    vals = [core.cz(core.exact_int(x)) for x in a.ravel().tolist()]
    if a.ndim == 0:
        return f"(@L0 ZR {vals[0]})"
    if a.ndim == 1:
        return f"(@L1 ZR {core.cseq(vals)})"
    w = a.shape[1]
    return "(@L2 ZR " + core.cseq(core.cseq(vals[i * w:(i + 1) * w]) for i in range(a.shape[0])) + ")"


def coq_opts(rc, rn):
    return f"(Opts {core.cbool(rc)} {core.cbool(rn)} true false)"


def coq_tfix(sw):
    return f"(TFix {core.cbool(sw['star'])} {core.cbool(sw['filter'])} {core.cbool(sw['ravel'])} {core.cbool(sw['chain'])})"


def coq_flags(sw):
    return "exact_flags" if sw["reduce_exact"] else "shipped_flags"


# --------------------------------------------------------------------------------------------
# witnesses: which behaviour does /repo have right now?
# --------------------------------------------------------------------------------------------
def text_cycle(p, kind="StringIO", save=None, sk=None, lk=None, tmpdir=None, tag="w"):
    """savetxt + loadtxt.  Returns (result or exception, text written, loader args)."""
    save = save or numpoly.savetxt
    sk, lk = dict(sk or {}), dict(lk or {})
    if kind == "StringIO":
        f = io.StringIO()
        save(f, p, **sk)
        text = f.getvalue()
        f.seek(0)
        src = f
    elif kind == "BytesIO":
        f = io.BytesIO()
        save(f, p, **sk)
        text = f.getvalue().decode("latin1")
        f.seek(0)
        src = f
    else:
        path = os.path.join(tmpdir, f"{tag}.txt")
        src = pathlib.Path(path) if kind == "Path" else path
        save(src, p, **sk)
        with open(path, newline="") as fh:
            text = fh.read()
    try:
        return numpoly.loadtxt(src, **lk), text
    except Exception as exc:  # noqa: BLE001
        return exc, text


def replay_witnesses(tinfo):
    q0, q1 = numpoly.variable(2)
    sw = {}
    a = numpoly.align_polynomials(q0, q1)[0]          # exponents [[0,1],[1,0]] with an all-zero column
    b = pickle.loads(pickle.dumps(a))
    sw["reduce_exact"] = b.exponents.tolist() == a.exponents.tolist()
    r, _ = text_cycle(numpoly.polynomial(q0 + q1))
    if isinstance(r, AssertionError):
        sw["star"], sw["filter"] = False, bool(tinfo and tinfo.get("filter"))
    elif isinstance(r, ValueError):
        sw["star"], sw["filter"] = True, False
    elif isinstance(r, Exception):
        sw["star"], sw["filter"], sw["w0d_other"] = False, False, repr(r)
    else:
        sw["star"], sw["filter"] = True, True
    r, _ = text_cycle(numpoly.polynomial([q0, 2 * q0]))
    sw["ravel"] = not isinstance(r, Exception)
    f = io.StringIO()
    numpy.savetxt(f, numpy.arange(6.).reshape(3, 2))
    f.seek(0)
    try:
        sw["chain"] = numpy.asarray(numpoly.loadtxt(f)).shape == (3, 2)
    except Exception:  # noqa: BLE001
        sw["chain"] = False
    return sw


# --------------------------------------------------------------------------------------------
def run(report, tier, seed):
    logging.getLogger("numpoly").setLevel(logging.ERROR)      # the numpy.savetxt spelling logs a hint per call
    tr_ok, tinfo = True, None
    try:
        key_tr.generate(core.REPO, core.COQ)
        tinfo = persist_tr.generate(core.REPO, core.COQ)
    except (persist_tr.TranslatorError, key_tr.TranslatorError, SyntaxError, OSError, KeyError) as exc:
        tr_ok = False
        report.notes.append(f"translator failed: {exc}")
    ok = tr_ok and core.prove(report, TARGETS)
    rng = core.rng_for(seed, "C13")
    cc = core.CoqCases("C13", HEADER, shard=220)
    viol = []        # (kind, what, replay)
    sw = replay_witnesses(tinfo)
    if tinfo:        # the source facts and the replayed behaviour must tell the same story
        src = {"reduce_exact": (tinfo["reduce"]["rc"], tinfo["reduce"]["rn"]) == (True, True),
               "star": tinfo["star"], "filter": tinfo["filter"], "ravel": tinfo["ravel"], "chain": tinfo["chain"]}
        diff = {k: (src[k], sw[k]) for k in src if src[k] != sw[k]}
        if diff:
            report.notes.append(f"source facts and replayed witnesses differ: {diff}")
    version = numpoly.__version__
    n_poly = 220 if tier == "quick" else 7000
    n_text = 2 if tier == "quick" else 3
    stats = {"pickle": 0, "copy": 0, "text": 0, "text_ok": 0, "plain": 0, "pickle_recleaned": 0, "names_pruned_by_option": 0,
             "text_0d": 0, "text_single": 0, "numpy_cannot_read": 0}
    dist = {"shapes": {}, "nterms": {}, "dtype": {}, "names": {}, "raw_redundant": 0, "options": {}, "file_kind": {}, "settings": {}}
    nontrivial = set()
    tmpdir = tempfile.mkdtemp(prefix="verif_c13_", dir="/tmp")

    def bump(d, k):
        d[k] = d.get(k, 0) + 1

    SHAPES = [(), (), (1,), (1, 1), (2,), (3,), (2, 2), (1, 3), (3, 1), (2, 1, 2), (2, 2, 2), (1, 1, 1)]
    try:
        for k in range(n_poly):
            shape = rng.choice(SHAPES) if rng.random() < 0.7 else gen.rand_shape(rng)
            names = gen.rand_names(rng)
            if rng.random() < 0.15:
                names = tuple(sorted(set(names) | {10}))[:4]
            nterms = rng.choice([1, 1, 2, 2, 2, 3, 3, 4, 6, 0])
            dtype = rng.choice([numpy.int64, numpy.float64])
            raw = rng.random() < 0.4
            p = gen.rand_poly(rng, shape, names, nterms=nterms, maxexp=3, dtype=dtype, raw=raw)
            bigvals = False
            if dtype is numpy.float64 and rng.random() < 0.25:
                bigvals = True
                # whole-valued floats beyond the int64 range (each is exactly representable): they must come
                # back as the same numbers, whatever the reader does with "integer looking" columns
                big = rng.choice([2.0 ** 63, 1e19, 6.02214076e23, 2.0 ** 70])
                with numpoly.global_options(retain_coefficients=True, retain_names=True):
                    p = numpoly.polynomial_from_attributes(p.exponents, [c * big for c in p.coefficients], p.names)
            if len(p.shape) >= 1 and rng.random() < 0.35:
                # views whose memory order is not the logical order: transposes, permuted axes, reversed / strided slices
                kind = rng.choice(["T", "perm", "rev", "step"]) if len(p.shape) >= 2 else rng.choice(["rev", "step"])
                if kind == "T":
                    p = p.T
                elif kind == "perm":
                    perm = list(range(len(p.shape)))
                    rng.shuffle(perm)
                    p = p.transpose(*perm)
                elif kind == "rev":
                    p = p[::-1]
                else:
                    p = p[..., ::2]
                bump(dist.setdefault("views", {}), kind)
            g_rc, g_rn = rng.choice([(False, True), (False, True), (True, True), (False, False), (True, False)])
            lay = layout(p)
            tp = core.coq_parr(lay)
            desc = " ".join(gen.describe(p).split())[:160]
            st0 = exact_state(p)
            redundant = has_redundant_zero_term(p)
            bump(dist["shapes"], str(tuple(p.shape)))
            bump(dist["nterms"], len(lay["rows"]))
            bump(dist["dtype"], str(p.dtype))
            bump(dist["names"], ",".join(p.names))
            bump(dist["options"], f"rc={g_rc},rn={g_rn}")
            dist["raw_redundant"] += int(redundant)
            rep0 = {"poly": lay, "dtype": str(p.dtype), "options": {"retain_coefficients": g_rc, "retain_names": g_rn}}
            with numpoly.global_options(retain_coefficients=g_rc, retain_names=g_rn):
                # ---------------- pickle, all protocols ------------------------------------------
                first = None
                for proto in range(0, pickle.HIGHEST_PROTOCOL + 1):
                    stats["pickle"] += 1
                    try:
                        b = pickle.loads(pickle.dumps(p, protocol=proto))
                    except Exception as exc:  # noqa: BLE001
                        viol.append(("pickle:raised", f"pickle protocol {proto} of {desc} raised {type(exc).__name__}: {exc}",
                                     {**rep0, "protocol": proto}))
                        break
                    st = exact_state(b)
                    if first is None:
                        first = (b, st)
                    elif st != first[1]:
                        viol.append(("pickle:protocols-differ", f"pickle protocol {proto} of {desc} differs from protocol 0",
                                     {**rep0, "protocol": proto}))
                        break
                    if st == st0 and type(b) is type(p):
                        continue
                    # not exact: which class?
                    if not sw["reduce_exact"] and st == exact_state(cleaned(p, False, g_rn)):
                        if redundant:        # all-zero terms dropped (and, with them, possibly names under retain_names=False)
                            stats["pickle_recleaned"] += 1
                            viol.append((K_PICKLE, f"pickle.loads(pickle.dumps(p, {proto})) of {desc} has exponents {st[3]} "
                                                   f"instead of {st0[3]} (all-zero terms dropped; global retain_coefficients={g_rc})",
                                         {**rep0, "protocol": proto, "got_exponents": st[3]}))
                        else:                # only unused names went, because retain_names=False asks for it
                            stats["names_pruned_by_option"] += 1
                        continue
                    viol.append(("pickle:differs", f"pickle protocol {proto} of {desc} gives shape/dtype/names/exponents/coefficients "
                                                   f"{st[:4]} instead of {st0[:4]}",
                                 {**rep0, "protocol": proto, "got": str(st)[:600]}))
                    break
                if first is not None:
                    cc.add(f"pk_ok {coq_opts(g_rc, g_rn)} {coq_flags(sw)} {tp} {lay_coq(layout(first[0]))}",
                           {"kind": "pickle", "poly": desc, "options": [g_rc, g_rn], "impl": str(first[1][:4])[:300]})
                    if redundant or len(p.names) > len(pruned_names(p)):
                        nontrivial.add(("pickle", json.dumps(lay), g_rc, g_rn))
                # ---------------- copies -------------------------------------------------------
                for cname, fn in (("copy.copy", copy.copy), ("copy.deepcopy", copy.deepcopy), (".copy()", lambda x: x.copy())):
                    stats["copy"] += 1
                    try:
                        c = fn(p)
                    except Exception as exc:  # noqa: BLE001
                        viol.append(("copy:raised", f"{cname} of {desc} raised {type(exc).__name__}: {exc}", {**rep0, "copy": cname}))
                        continue
                    if exact_state(c) != st0 or type(c) is not type(p):
                        viol.append(("copy:differs", f"{cname} of {desc} is not an exact copy: {exact_state(c)[:4]}", {**rep0, "copy": cname}))
                        continue
                    if c is p or numpy.shares_memory(numpy.asarray(c.values), numpy.asarray(p.values)):
                        viol.append(("copy:shares-memory", f"{cname} of {desc} shares its coefficient buffer with the original",
                                     {**rep0, "copy": cname}))
                        continue
                    mutate_storage(c)
                    if exact_state(p) != st0:
                        viol.append(("copy:not-independent", f"writing into the storage of {cname}(p) changed p = {desc}",
                                     {**rep0, "copy": cname}))
                    elif p.size and not all(numpy.all(numpy.asarray(x) == 77) for x in c.coefficients):
                        viol.append(("copy:write-lost", f"writing into the storage of {cname}(p) did not reach the copy", {**rep0, "copy": cname}))
                # ---------------- text files -----------------------------------------------------
                for j in range(n_text):
                    stats["text"] += 1
                    kind = rng.choice(["StringIO", "StringIO", "BytesIO", "path", "Path"])
                    save = rng.choice([numpoly.savetxt, numpoly.savetxt, numpy.savetxt])
                    sk, lk = {}, {}
                    r = rng.random()
                    if r < 0.35 and not bigvals:      # big whole floats: full-precision default format only
                        sk["fmt"] = rng.choice(["%d", "%g", "%.3f", "%10.5f", "%+.6e", "%i"])
                        if sk["fmt"] in ("%d", "%i") and rng.random() < 0.5:
                            lk["dtype"] = int
                    r = rng.random()
                    if r < 0.3:
                        sk["delimiter"] = rng.choice([",", ";", "\t", " , "])
                        lk["delimiter"] = sk["delimiter"].strip() or sk["delimiter"]
                    if rng.random() < 0.3:
                        sk["comments"] = lk["comments"] = rng.choice(["#", "% ", "// ", "@", "## ", "$ ", "* ", "| ", "(c) ", "+ ", "? ", "[x] ", "^"])
                    if rng.random() < 0.3:
                        sk["header"] = rng.choice(["my header", "two\nlines", "numpoly is not here", " x"])
                    if rng.random() < 0.15:
                        sk["footer"] = "the end"
                    bump(dist["file_kind"], kind + ("/numpy.savetxt" if save is numpy.savetxt else ""))
                    bump(dist["settings"], ",".join(sorted(sk)) or "defaults")
                    rep = {**rep0, "file": kind, "save": save.__module__.split(".")[0] + ".savetxt",
                           "savetxt_args": {a: (v if isinstance(v, str) else str(v)) for a, v in sk.items()},
                           "loadtxt_args": {a: (v if isinstance(v, str) else v.__name__) for a, v in lk.items()}}
                    try:
                        res, text = text_cycle(p, kind, save, sk, lk, tmpdir, tag=f"p{k}_{j}")
                    except Exception as exc:  # noqa: BLE001   (savetxt itself failed)
                        viol.append(("savetxt:raised", f"savetxt of {desc} ({sk}) raised {type(exc).__name__}: {exc}", rep))
                        continue
                    line = text.split("\n", 1)[0] + "\n"
                    comments = sk.get("comments", "# ")
                    # the header the implementation wrote vs the model's
                    cc.add(f"hdr_ok {cstr(version)} {cstr(comments)} {tp} {cstr(line)}",
                           {"kind": "header", "poly": desc, "line": line, **rep})
                    # what numpy.loadtxt makes of the numeric part (library behaviour, input of the model)
                    try:
                        arr = numpy.loadtxt(io.StringIO(text), **lk)
                    except Exception:  # noqa: BLE001
                        stats["numpy_cannot_read"] += 1
                        arr = None
                    if isinstance(res, Exception):
                        exp = f"(XErr {core.err_enum(res)})"
                        if p.shape == () and isinstance(res, (AssertionError, ValueError)) and not (sw["star"] and sw["filter"]):
                            stats["text_0d"] += 1
                            viol.append((K_0D, f"loadtxt(savetxt(p)) for the 0-d {desc} raised {type(res).__name__} "
                                               f"(header line {line!r})", {**rep, "line": line, "error": type(res).__name__}))
                        elif len(lay["rows"]) == 1 and isinstance(res, ValueError) and not sw["ravel"]:
                            stats["text_single"] += 1
                            viol.append((K_SINGLE, f"loadtxt(savetxt(p)) for the single-term {desc} of shape {tuple(p.shape)} raised "
                                                   f"ValueError: {res}", {**rep, "error": str(res)[:200]}))
                        else:
                            viol.append(("loadtxt:raised", f"loadtxt(savetxt(p)) for {desc} ({kind}, {sk}) raised "
                                                           f"{type(res).__name__}: {res}", {**rep, "error": str(res)[:300]}))
                    else:
                        if not isinstance(res, numpoly.ndpoly):
                            exp = "XPlain"
                            viol.append(("loadtxt:plain", f"loadtxt(savetxt(p)) for {desc} returned a plain {type(res).__name__}", rep))
                        else:
                            stats["text_ok"] += 1
                            sh, els = core.canon_elements(res)
                            exp = f"(XPoly {core.cnats(core.name_index(nm) for nm in res.names)} (EOk {core.coq_obs(sh, els)}))"
                            want_names = tuple(p.names) if g_rn else pruned_names(cleaned(p, g_rc, True))
                            if tuple(res.shape) != tuple(p.shape) or core.canon_elements(res) != core.canon_elements(p):
                                viol.append(("loadtxt:value", f"loadtxt(savetxt(p)) for {desc} ({kind}, {sk}) gives {gen.describe(res)[:200]}",
                                             {**rep, "got": gen.describe(res)[:300]}))
                            elif tuple(res.names) != want_names:
                                viol.append(("loadtxt:names", f"loadtxt(savetxt(p)) for {desc} has names {res.names}, expected {want_names}",
                                             {**rep, "got_names": list(res.names)}))
                            if len(lay["rows"]) >= 2 and len(p.shape) >= 2:
                                nontrivial.add(("text", json.dumps(lay), kind, json.dumps(rep["savetxt_args"], sort_keys=True)))
                    if arr is not None:
                        try:
                            cc.add(f"ld_ok {coq_opts(g_rc, g_rn)} {coq_tfix(sw)} {cstr(comments)} {cstr(line)} {coq_loaded(arr)} {exp}",
                                   {"kind": "loadtxt", "poly": desc, "line": line, "impl": exp[:300], **rep})
                        except ValueError:
                            pass      # non-integral value read back (format precision): not comparable exactly
            report.sample({"poly": desc, "pickle": str(first[1][:4])[:200] if first else None}, cap=4)

        # ---------------- files without the numpoly header ----------------------------------------
        n_plain = 40 if tier == "quick" else 1000
        for k in range(n_plain):
            stats["plain"] += 1
            rows_, cols_ = rng.randint(1, 4), rng.randint(1, 3)
            data = numpy.array([[rng.randint(-5, 5) for _ in range(cols_)] for _ in range(rows_)], dtype=float)
            kind = rng.choice(["StringIO", "BytesIO", "path", "Path"])
            sk = {}
            if rng.random() < 0.4:
                sk["header"] = rng.choice(["plain data", "numpoly", "names:q0 keys:; shape:1"])
            if rng.random() < 0.3:
                sk["fmt"] = "%d"
            rep = {"plain": data.tolist(), "file": kind, "savetxt_args": sk}
            try:
                res, text = text_cycle(data, kind, numpy.savetxt, sk, {}, tmpdir, tag=f"plain{k}")
            except Exception as exc:  # noqa: BLE001
                viol.append(("plain:savetxt-raised", f"numpy.savetxt of a plain array raised {exc}", rep))
                continue
            want = numpy.loadtxt(io.StringIO(text))
            line = text.split("\n", 1)[0] + "\n"
            fileobj = kind in ("StringIO", "BytesIO")
            nlines = text.count("\n")
            if isinstance(res, Exception):
                viol.append(("plain:raised", f"loadtxt of a file without numpoly header ({kind}) raised {type(res).__name__}: {res}", rep))
                continue
            got = numpy.asarray(res)
            seen = nlines - (1 if (fileobj and not sw["chain"]) else 0)
            cc.add(f"ld_ok {coq_opts(False, True)} {coq_tfix(sw)} {cstr('# ')} {cstr(line)} {coq_loaded(want)} XPlain && "
                   f"seen_ok {core.cbool(fileobj)} {core.cbool(sw['chain'])} {core.cnat(nlines)} {core.cnat(seen)}",
                   {"kind": "plain", "line": line, **rep})
            if isinstance(res, numpoly.ndpoly):
                viol.append(("plain:polynomial", f"a file without numpoly header ({kind}) was loaded as a polynomial", rep))
            elif got.shape == want.shape and numpy.array_equal(got, want):
                nontrivial.add(("plain", text, kind))
            elif fileobj and "header" not in sk and numpy.array_equal(got.reshape(-1, cols_) if got.size else got.reshape(0, cols_),
                                                                     want.reshape(-1, cols_)[1:]):
                viol.append((K_PLAIN, f"loadtxt of a plain {rows_}x{cols_} array through {kind} returned {got.tolist()} "
                                      f"instead of {want.tolist()} (first data row lost)", {**rep, "got": got.tolist()}))
            else:
                viol.append(("plain:differs", f"loadtxt of a plain array through {kind} returned {got.tolist()} instead of {want.tolist()}",
                             {**rep, "got": got.tolist()}))
    finally:
        shutil.rmtree(tmpdir, ignore_errors=True)

    failed, errors = cc.run() if tr_ok else ([], [])
    report.coverage.update({
        "evaluations": stats["pickle"] + stats["copy"] + stats["text"] + stats["plain"],
        "distinct_nontrivial": len(nontrivial),
        "rule": "random C01-space polynomial arrays (int64/float64 integral coefficients, 1-4 names incl. q10, shapes 0-d, "
                "size-1, 1-d..3-d, 0-6 terms incl. single-term and the zero polynomial, raw storage with redundant zero terms / "
                "unused names) under 4 global option settings x pickle protocols 0-5, copy.copy, copy.deepcopy, .copy() "
                "(exact state + independence by writing into the copy) x numpoly.savetxt/numpy.savetxt with fmt / delimiter / "
                "comments / header / footer variations through str path, pathlib.Path, StringIO, BytesIO -> numpoly.loadtxt; "
                "plain numpy files through the same four kinds; non-trivial = pickle of a polynomial with redundant storage, "
                "text round trip of a >=2-term >=2-d array, plain file loaded intact; distinct by (storage, options/settings)",
        "streams": stats, "input_distribution": dist, "coq_cases": len(cc.cases),
        "translator": "ok" if tr_ok else "failed", "source_facts": tinfo, "behaviour_switches_replayed": sw,
        "traces_validated_against_impl": len(cc.cases),
    })
    seen_kinds = set()
    for kind, what, rep in viol:
        kf = report.match_known(kind)
        if kf:
            if kind not in seen_kinds:
                report.known_finding(kf["id"], kf["what"] + " — e.g. " + what[:220])
            seen_kinds.add(kind)
            continue
        if kind in seen_kinds:
            continue
        seen_kinds.add(kind)
        report.violation("C13: " + what, {"kind": kind, **rep})
    if not report.violations:
        for k, path, log in errors:
            report.violation(f"correspondence shard did not evaluate: {log[-300:]}", {"kind": "shard-error", "log": log}, found_input=False)
        for idx in failed[:3]:
            term, meta = cc.cases[idx]
            report.violation(f"model and implementation disagree on {str(meta)[:300]}", {"kind": "correspondence", "term": term[:1500], **meta})
        if not ok and not report.violations:
            report.violation("C13: bridge/proof obligation no longer checks: "
                             + str(report.coverage.get("broken_obligation", {}).get("where") or report.notes),
                             {"kind": "broken-proof", "theorem": "Bridge/BridgePersist.v / Props/P_C13.v",
                              **report.coverage.get("broken_obligation", {})}, found_input=False)
    report.coverage["trusted_base"] = ["Coq 8.16.1 kernel + VM", "MathComp / SsrMultinomials, Coq stdlib (DecimalN, Lia)",
                                       "translators persist_tr.py, key_tr.py", "pickle, numpy.savetxt/numpy.loadtxt number formatting and "
                                       "parsing, re, file I/O (library behaviour, observed only)"]
    report.assumptions += [
        "coefficients are integers or integral floats (text formats reproduce them exactly); names of the form q<k>",
        "under the global option retain_names=False a round trip may drop indeterminates that occur in no term (the option's "
        "documented meaning); everything else must be reproduced",
        "the array numpy.loadtxt returns for the numeric part is taken from numpy (input of the model), not modelled",
        "gzip/bz2 paths, zero-size arrays, loadtxt's usecols/unpack/skiprows/max_rows/ndmin and exponents whose key code point "
        "is non-ASCII or Unicode white space (exponent 74, 101, ...) are outside the quantifier of C13 and not exercised",
    ]


def replay(path):
    data = json.load(open(path))
    rep = data["replay"]
    print(json.dumps(rep, indent=1)[:3000])
    if "poly" in rep:
        lay = rep["poly"]
        p = numpoly.polynomial_from_attributes(
            lay["rows"], [numpy.array(c, dtype=rep.get("dtype", "int64")).reshape(lay["shape"]) for c in lay["cols"]],
            tuple(f"q{n}" for n in lay["names"]), retain_coefficients=True, retain_names=True)
        opt = rep.get("options", {})
        with numpoly.global_options(**opt):
            if rep.get("kind", "").startswith("pickle"):
                b = pickle.loads(pickle.dumps(p, protocol=rep.get("protocol", 2)))
                print("implementation now: exponents", p.exponents.tolist(), "->", b.exponents.tolist(), "names", p.names, "->", b.names)
            elif "file" in rep:
                sk = dict(rep.get("savetxt_args", {}))
                lk = {a: (int if v == "int" else v) for a, v in rep.get("loadtxt_args", {}).items()}
                tmp = tempfile.mkdtemp(prefix="verif_c13_", dir="/tmp")
                try:
                    res, text = text_cycle(p, rep["file"], numpy.savetxt if rep.get("save") == "numpy.savetxt" else numpoly.savetxt,
                                           sk, lk, tmp)
                    print("file written:", repr(text[:300]))
                    print("implementation now:", repr(res))
                finally:
                    shutil.rmtree(tmp, ignore_errors=True)
    return 0
