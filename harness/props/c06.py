"""C06 — derivative, gradient and Hessian are the formal partial derivatives."""
from __future__ import annotations

import itertools
import json

import numpy
import numpoly

from harness import core, gen

HEADER = """From Coq Require Import ZArith.
From mathcomp Require Import all_ssreflect all_algebra ssrZ.
From NP Require Import Base Poly Harness Deriv.
Delimit Scope Z_scope with CZ.
Local Notation P := ZParr.
"""
TARGETS = ["Gen/GenSource.vo", "Bridge/BridgeSrcC06.vo", "Props/P_C06.vo"]


def opts_coq(o):
    return "(Opts %s %s %s %s)" % tuple(core.cbool(o[k]) for k in ("retain_coefficients", "retain_names", "sort_graded", "sort_reverse"))


def elem_dict(lay, i):
    out = {}
    for r, c in zip(lay["rows"], lay["cols"]):
        if c[i]:
            m = tuple(sorted((v, e) for v, e in zip(lay["names"], r) if e))
            out[m] = out.get(m, 0) + c[i]
    return {m: v for m, v in out.items() if v}


def d_spec(poly, var):
    """formal partial derivative of {monomial: coeff} with respect to variable index var"""
    out = {}
    for m, c in poly.items():
        d = dict(m)
        e = d.get(var, 0)
        if e == 0:
            continue
        if e == 1:
            del d[var]
        else:
            d[var] = e - 1
        k = tuple(sorted(d.items()))
        out[k] = out.get(k, 0) + c * e
    return {m: v for m, v in out.items() if v}


def run(report, tier, seed):
    from harness.translators import source_tr
    ok = core.prove_tied(report, TARGETS, [source_tr])
    rng = core.rng_for(seed, "C06")
    cc = core.CoqCases("C06", HEADER, shard=200)
    viol = []
    settings = [dict(zip(("retain_coefficients", "retain_names", "sort_graded", "sort_reverse"), bits))
                for bits in itertools.product([False, True], repeat=4)]
    n = 500 if tier == "quick" else 8000
    nontrivial = set()
    stats = {"name": 0, "index": 0, "poly": 0, "gradient": 0, "hessian": 0, "multi": 0}
    for k in range(n):
        shape = gen.rand_shape(rng, 2)
        names = gen.rand_names(rng, 3)
        with numpoly.global_options(retain_names=True, retain_coefficients=False):
            p = gen.rand_poly(rng, shape, names, nterms=rng.choice([0, 1, 2, 3, 4]), maxexp=3, dtype=numpy.int64, raw=False)
            if rng.random() < 0.2:
                # narrow integer coefficient dtypes with coefficients near the end of their range: the formal
                # derivative (coefficient times exponent) must not wrap
                narrow = rng.choice([numpy.int8, numpy.int16, numpy.uint8])
                scale = {numpy.int8: 40, numpy.int16: 10000, numpy.uint8: 80}[narrow]
                cs = [(numpy.abs(numpy.asarray(c)) if narrow is numpy.uint8 else numpy.asarray(c)) * scale for c in p.coefficients]
                p = numpoly.polynomial_from_attributes(p.exponents, [c.astype(narrow) for c in cs], p.names)
        special = rng.random() < 0.15
        if special:
            # names whose numeric and string orders differ, low exponents (a derivative can remove an indeterminate
            # completely), differentiated successively by position
            with numpoly.global_options(retain_names=True, retain_coefficients=False):
                p = gen.rand_poly(rng, shape, rng.choice([(2, 10), (3, 10), (2, 3, 10), (1, 10, 11)]), nterms=rng.choice([1, 2]),
                                  maxexp=1, dtype=numpy.int64, raw=False)
        if len(p.names) > 1 and rng.random() < 0.15:
            # the same polynomial stored with its indeterminates in another order than the index order (names given
            # explicitly to a constructor): positions are positions in THESE names, under every option setting (D38)
            perm = list(range(len(p.names)))
            while perm == sorted(perm):
                rng.shuffle(perm)
            with numpoly.global_options(retain_names=True, retain_coefficients=True):
                p = numpoly.ndpoly.from_attributes(p.exponents[:, perm], p.coefficients, [p.names[j] for j in perm])
        lay = core.poly_layout(p)
        size = int(numpy.prod(shape)) if shape else 1
        o = settings[k % 16] if rng.random() < 0.7 else settings[1 * 4]      # defaults: retain_names on
        kind = "multi" if special else rng.choice(["name", "name", "index", "poly", "gradient", "hessian", "multi"])
        stats[kind] += 1
        desc = gen.describe(p)
        D = len(lay["names"])
        rep = {"poly": desc, "layout": lay, "options": o, "kind": kind}
        try:
            with numpoly.global_options(**o):
                if kind in ("name", "index", "poly"):
                    j = rng.randrange(D)
                    v = lay["names"][j]
                    if kind == "poly" and rng.random() < 0.5:
                        arg = p.indeterminants[j]        # an element of the indeterminate array (carries the other names)
                    else:
                        arg = f"q{v}" if kind == "name" else (j if rng.random() < 0.7 else numpy.int64(j)) if kind == "index" else numpoly.symbols(f"q{v}")
                    res = numpoly.derivative(p, arg)
                    vs = [v]
                elif kind == "multi":
                    # two or three successive variables, by name or by position (positions refer to the names of p)
                    pos = [rng.randrange(D) for _ in range(rng.choice([2, 2, 3]))]
                    vs = [lay["names"][j] for j in pos]
                    by_pos = rng.random() < 0.5
                    res = numpoly.derivative(p, *(pos if by_pos else [f"q{v}" for v in vs]))
                elif kind == "gradient":
                    res = numpoly.gradient(p)
                else:
                    if size > 4 or D > 2:
                        continue
                    res = numpoly.hessian(p)
        except Exception as exc:  # noqa: BLE001
            key = f"raise:{kind}:" + ("retc" if o["retain_coefficients"] else "") + ("" if o["retain_names"] else "noretn")
            viol.append((key, f"{kind} of {desc} under {o} raised {type(exc).__name__}: {exc}", rep))
            continue
        rshape, rels = core.canon_elements(res)
        rep["impl"] = str((rshape, rels))[:600]
        # ---- the property, directly --------------------------------------------------------------
        if kind in ("name", "index", "poly", "multi"):
            want_shape = lay["shape"]
            want = []
            for i in range(size):
                e = elem_dict(lay, i)
                for v in vs:
                    e = d_spec(e, v)
                want.append(sorted(e.items()))
            if any(any(m and dict(m).get(vs[0], 0) == 0 for m in elem_dict(lay, i)) for i in range(size)):
                nontrivial.add(json.dumps([lay, vs, o], default=str))
        elif kind == "gradient":
            want_shape = [D] + lay["shape"]
            want = [sorted(d_spec(elem_dict(lay, i), v).items()) for v in lay["names"] for i in range(size)]
        else:
            want_shape = [D, D] + lay["shape"]
            want = [sorted(d_spec(d_spec(elem_dict(lay, i), v1), v2).items())
                    for v2 in lay["names"] for v1 in lay["names"] for i in range(size)]
        if rshape != want_shape:
            viol.append((f"shape:{kind}:" + ("" if o["retain_names"] else "noretn"),
                         f"{kind} of {desc} under {o} has shape {tuple(rshape)}, expected {tuple(want_shape)}", rep))
            continue
        if rels != want:
            viol.append((f"value:{kind}", f"{kind} of {desc} under {o} is not the formal derivative: got {rels[:3]}, expected {want[:3]}", rep))
            continue
        oc = opts_coq(o)
        tp = core.coq_parr(lay)
        exp = f"(EOk {core.coq_obs(rshape, rels)})"
        if kind in ("name", "index", "poly", "multi"):
            cc.add(f"chk (zderivative {oc} {tp} {core.cnats(vs)}) {exp}", rep)
        elif kind == "gradient":
            cc.add(f"chk (zgradient {oc} {tp}) {exp}", rep)
        else:
            cc.add(f"chk (zhessian {oc} {tp}) {exp}", rep)
        report.sample({"kind": kind, "poly": desc, "options": o, "result": str(res)[:200]}, cap=5)
    failed, errors = cc.run()
    report.coverage.update({
        "evaluations": n, "distinct_nontrivial": len(nontrivial), "exhaustive_settings": 16,
        "rule": "C01-space polynomial arrays (0-2 dims, 1-3 names, 0-4 terms incl. constants and terms free of the variable) "
                "x designation by name / position / indeterminate polynomial / two successive variables, gradient, "
                "hessian x all 16 retain_*/sort_* settings; non-trivial = some element has a term free of the variable",
        "per_kind": stats, "coq_cases": len(cc.cases), "traces_validated_against_impl": len(cc.cases),
    })
    kinds = set()
    for kind, what, rep in viol:
        kf = report.match_known(kind)
        if kf:
            if kind not in kinds:
                report.known_finding(kf["id"], kf["what"] + " — e.g. " + what[:200])
            kinds.add(kind)
            continue
        if kind in kinds:
            continue
        kinds.add(kind)
        report.violation("C06: " + what, {"kind_key": kind, **rep})
    if not report.violations:
        for k, path, log in errors:
            report.violation(f"correspondence shard did not evaluate: {log[-300:]}", {"kind": "shard-error", "log": log}, found_input=False)
        for idx in failed[:3]:
            term, meta = cc.cases[idx]
            report.violation(f"model and implementation disagree on {meta['kind']} of {meta['poly']} under {meta['options']}",
                             {"term": term[:600], **meta}, found_input=False)
        if not ok and not report.violations:
            report.violation("C06: proof obligation no longer checks: " + str(report.coverage.get("broken_obligation", {}).get("where")),
                             {"kind": "broken-proof", **report.coverage.get("broken_obligation", {})}, found_input=False)
    report.coverage["trusted_base"] = ["Coq 8.16.1 kernel + VM", "MathComp / SsrMultinomials (mderiv)", "harness-side formal derivative on dictionaries"]
    report.assumptions += ["integer coefficients"]


def replay(path):
    data = json.load(open(path))
    print(json.dumps(data["replay"], indent=1)[:2500])
    return 0
