"""C17 — operations never modify their arguments.

(1) proof side: the effect translator regenerates the IR program of every function under
    /repo/numpoly, Bridge/BridgeEffects.v re-establishes `all_safe` on them by vm_compute and
    Props/P_C17.v instantiates the frame theorem (core.prove);
(2) dynamic tie: byte-level snapshots of every argument before and after each call of the operation
    catalogue, in the aliasing situations in which an internal in-place store could reach the caller
    (same object twice, already aligned operands, views of one base, 0-d / size-1, calls that raise,
    out= calls), whether the call returned or raised; afterwards the result is overwritten in place to
    record (not to report) which results are live views of an argument.
"""
from __future__ import annotations

import base64
import copy
import io
import json
import operator
import os
import pickle
import re
import time

import numpy
import numpoly

from harness import core, gen, catalogue

TARGETS = ["Bridge/BridgeEffects.vo", "Props/P_C17.vo"]


# --------------------------------------------------------------------------------------------
# snapshots
# --------------------------------------------------------------------------------------------
def snap(x, depth=0):
    """Everything the property talks about, as plain comparable data."""
    if depth > 6:
        return ("deep",)
    if isinstance(x, numpoly.ndpoly):
        raw = numpy.ndarray.dtype.__get__(x)                         # the raw structured dtype
        keys = [str(k) for k in numpy.asarray(x.keys).tolist()]
        coeffs = tuple((k, numpy.array(numpy.ndarray.__getitem__(x, k)).tobytes()) for k in raw.names)
        return ("poly", tuple(x.shape), str(x.dtype), tuple(x.names), x.exponents.tobytes(), tuple(x.exponents.shape),
                str(raw.descr), tuple(keys), coeffs)
    if isinstance(x, numpy.ndarray):
        if x.dtype == object:
            return ("objarr", tuple(x.shape), tuple(snap(e, depth + 1) for e in x.ravel().tolist()))
        return ("nd", tuple(x.shape), str(x.dtype), numpy.array(x).tobytes())
    if isinstance(x, numpy.generic):
        return ("npscalar", str(x.dtype), x.tobytes())
    if isinstance(x, (list, tuple)):
        return (type(x).__name__, tuple(snap(e, depth + 1) for e in x))
    if isinstance(x, dict):
        return ("dict", tuple((repr(k), snap(v, depth + 1)) for k, v in x.items()))
    if isinstance(x, (int, float, complex, str, bool, bytes, type(None), slice, type(Ellipsis))):
        return ("py", type(x).__name__, repr(x))
    return ("other", type(x).__name__)


def diff_snap(a, b):
    """Human-readable first difference of two snapshots of the same object."""
    if a == b:
        return None
    if a[0] != b[0]:
        return f"kind {a[0]} -> {b[0]}"
    if a[0] == "poly":
        fields = ["shape", "dtype", "names", "exponents", "exponent shape", "storage dtype", "keys", "coefficient bytes"]
        for f, x, y in zip(fields, a[1:], b[1:]):
            if x != y:
                if f == "coefficient bytes":
                    ks = [k for (k, u), (_, v) in zip(x, y) if u != v]
                    return f"coefficient bytes of {len(ks)} term(s) changed"
                return f"{f}: {str(x)[:60]} -> {str(y)[:60]}"
    if a[0] == "nd":
        return "array bytes/shape/dtype changed"
    if a[0] in ("list", "tuple", "objarr"):
        xs, ys = a[-1], b[-1]
        if len(xs) != len(ys):
            return f"length {len(xs)} -> {len(ys)}"
        for i, (x, y) in enumerate(zip(xs, ys)):
            d = diff_snap(x, y)
            if d:
                return f"element {i}: {d}"
    return "changed"


def describe(x, depth=0):
    if isinstance(x, numpoly.ndpoly):
        try:
            return f"poly{tuple(x.shape)}:{x.dtype}:{str(x)[:80]}"
        except Exception:  # noqa: BLE001
            return f"poly{tuple(x.shape)}:{x.dtype}"
    if isinstance(x, numpy.ndarray):
        return f"ndarray{tuple(x.shape)}:{x.dtype}:{x.tolist() if x.size <= 8 else '...'}"
    if isinstance(x, (list, tuple)) and depth < 3:
        return type(x).__name__ + "[" + ", ".join(describe(e, depth + 1) for e in x[:4]) + "]"
    if callable(x):
        return getattr(x, "__name__", "callable")
    return repr(x)[:60]


# --------------------------------------------------------------------------------------------
# callables
# --------------------------------------------------------------------------------------------
def _np(name):
    f = getattr(numpy, name, None)
    return f if f is not None else getattr(numpy.linalg, name)


def build_callables():
    C = {}
    E = catalogue.entries()
    M = catalogue.method_spellings()
    for name, g in E.items():
        if g is None or not hasattr(numpoly, name):
            continue
        C[f"numpoly.{name}"] = getattr(numpoly, name)
        try:
            C[f"numpy.{name}"] = _np(name)
        except AttributeError:
            pass
        if name in M:
            C[f"method.{name}"] = (lambda m: lambda *a, **k: m(a, k))(M[name])
    extra = {
        "call": lambda p, *a, **k: p(*a, **k),
        "numpoly.call": numpoly.call,
        "derivative": numpoly.derivative, "gradient": numpoly.gradient, "hessian": numpoly.hessian,
        "poly_divmod": numpoly.poly_divmod, "poly_divide": numpoly.poly_divide, "poly_remainder": numpoly.poly_remainder,
        "op.truediv": operator.truediv, "op.mod": operator.mod, "op.divmod": divmod,
        "align_polynomials": numpoly.align_polynomials, "align_shape": numpoly.align_shape,
        "align_exponents": numpoly.align_exponents, "align_indeterminants": numpoly.align_indeterminants,
        "aspolynomial": numpoly.aspolynomial, "polynomial": numpoly.polynomial,
        "polynomial_from_attributes": numpoly.polynomial_from_attributes,
        "ndpoly.from_attributes": numpoly.ndpoly.from_attributes,
        "clean_attributes": numpoly.clean_attributes,
        "remove_redundant_coefficients": numpoly.remove_redundant_coefficients,
        "remove_redundant_names": numpoly.remove_redundant_names,
        "set_dimensions": numpoly.set_dimensions, "decompose": numpoly.decompose,
        "lead_exponent": numpoly.lead_exponent, "lead_coefficient": numpoly.lead_coefficient,
        "sortable_proxy": numpoly.sortable_proxy, "isconstant": numpoly.isconstant, "tonumpy": numpoly.tonumpy,
        "method.isconstant": lambda p: p.isconstant(), "method.tonumpy": lambda p: p.tonumpy(),
        "method.todict": lambda p: p.todict(), "method.astype": lambda p, d: p.astype(d),
        "method.copy": lambda p: p.copy(), "method.ravel": lambda p: p.ravel(), "method.flatten": lambda p: p.flatten(),
        "method.round": lambda p, *a: p.round(*a), "method.max": lambda p, **k: p.max(**k),
        "method.min": lambda p, **k: p.min(**k), "method.mean": lambda p, **k: p.mean(**k),
        "method.diagonal": lambda p, **k: p.diagonal(**k),
        "prop.coefficients": lambda p: p.coefficients, "prop.exponents": lambda p: p.exponents,
        "prop.values": lambda p: p.values, "prop.T": lambda p: p.T, "prop.indeterminants": lambda p: p.indeterminants,
        "prop.keys": lambda p: p.keys, "prop.names": lambda p: p.names, "prop.flat": lambda p: p.flat,
        "prop.dtype": lambda p: p.dtype,
        "getitem": lambda p, i: p[i], "iter": lambda p: list(p), "len": len,
        "str": str, "repr": repr,
        "pickle": lambda p: pickle.loads(pickle.dumps(p)), "copy.copy": copy.copy, "copy.deepcopy": copy.deepcopy,
        "symbols": numpoly.symbols, "variable": numpoly.variable, "monomial": numpoly.monomial,
        "glexindex": numpoly.glexindex, "glexsort": numpoly.glexsort, "bindex": numpoly.bindex,
        "cross_truncate": numpoly.cross_truncate,
        "polynomial_from_roots": numpoly.polynomial_from_roots, "roots": getattr(numpoly, "roots", None),
        "result_type": numpoly.result_type, "numpoly.copyto": numpoly.copyto, "numpy.copyto": numpy.copyto,
        "op.iadd": operator.iadd, "op.isub": operator.isub, "op.imul": operator.imul,
        "op.and": operator.and_, "op.or": operator.or_,
        "savetxt": lambda X: numpoly.savetxt(io.StringIO(), X),
        "numpoly.ones": numpoly.ones, "numpoly.zeros": numpoly.zeros,
        "to_sympy": numpoly.to_sympy,
        "ufunc.reduce.add": lambda p, **k: numpy.add.reduce(p, **k),
        "ufunc.reduce.multiply": lambda p, **k: numpy.multiply.reduce(p, **k),
        "ufunc.accumulate.add": lambda p, **k: numpy.add.accumulate(p, **k),
    }
    for k, v in extra.items():
        if v is not None:
            C[k] = v
    return C


# positions whose object is an explicit output target of the call
def out_positions(key, args, kwargs):
    targets = []
    if "out" in kwargs:
        targets.append(("kw", "out"))
    if key in ("numpoly.copyto", "numpy.copyto"):
        targets.append(("pos", 0))
    if key in ("op.iadd", "op.isub", "op.imul"):
        targets.append(("pos", 0))
    return targets


# --------------------------------------------------------------------------------------------
# operands
# --------------------------------------------------------------------------------------------
def mk_factory(rng):
    def mk(shape, const=False, nonzero=False):
        shape = tuple(shape)
        if const:
            size = int(numpy.prod(shape)) if shape else 1
            vals = [rng.choice([1, 2, 3, -1, -2]) if nonzero else rng.randint(-3, 3) for _ in range(size)]
            return numpoly.polynomial(numpy.array(vals, dtype=numpy.int64).reshape(shape))
        dt = rng.choice([numpy.int64, numpy.int64, numpy.float64, numpy.complex128, numpy.bool_, numpy.int8, numpy.float32, numpy.uint8])
        # (bool, int8, float32, uint8: conversions such as asarray(x, dtype=bool) or astype(..., copy=False) are views of the
        # argument's own storage exactly for these, so an in-place update behind them writes into the argument)
        if dt in (numpy.bool_, numpy.uint8):
            q = gen.rand_poly(rng, shape, gen.rand_names(rng, 2), nterms=rng.choice([2, 3]), maxexp=2, dtype=numpy.int64,
                              raw=rng.random() < 0.25)
            return numpoly.polynomial_from_attributes(q.exponents, [(numpy.asarray(c) != 0) if dt is numpy.bool_
                                                                    else numpy.abs(numpy.asarray(c)).astype(dt) for c in q.coefficients],
                                                      q.names, retain_coefficients=True, retain_names=True)
        return gen.rand_poly(rng, shape, gen.rand_names(rng, 2), nterms=rng.choice([1, 2, 3]), maxexp=2, dtype=dt,
                             raw=rng.random() < 0.25)
    return mk


def polys_in(x, acc=None, depth=0):
    acc = [] if acc is None else acc
    if isinstance(x, numpoly.ndpoly):
        acc.append(x)
    elif isinstance(x, (list, tuple)) and depth < 3:
        for e in x:
            polys_in(e, acc, depth + 1)
    elif isinstance(x, dict):
        for e in x.values():
            polys_in(e, acc, depth + 1)
    return acc


def map_polys(x, f, depth=0):
    if isinstance(x, numpoly.ndpoly):
        return f(x)
    if isinstance(x, list) and depth < 3:
        return [map_polys(e, f, depth + 1) for e in x]
    if isinstance(x, tuple) and depth < 3 and any(isinstance(e, (numpoly.ndpoly, list, tuple)) for e in x):
        return tuple(map_polys(e, f, depth + 1) for e in x)
    if isinstance(x, dict):
        return {k: map_polys(v, f, depth + 1) for k, v in x.items()}
    return x


def view_of(p, watch):
    """A polynomial that is a view into a larger base (the base is watched too)."""
    flat = numpy.ndarray.ravel(p) if p.flags["C_CONTIGUOUS"] else p.ravel()
    base = numpoly.concatenate([flat, flat]) if p.size else p
    if not p.size:
        return p
    v = numpy.ndarray.__getitem__(base, slice(0, p.size))
    v = numpy.ndarray.reshape(v, p.shape)
    watch.append(("view-base", base))
    return v


SITUATIONS = ["plain", "same-object", "aligned", "aligned-names", "views-of-each-other", "view-of-base", "canonical",
              "ndarray-operand", "list-operand"]


def apply_situation(sit, args, kwargs):
    """Fresh copies of the generated operands, put into one aliasing situation.
    Returns (args, kwargs, extra watched objects) or None if the situation does not apply."""
    a, k = rebuild(args, kwargs)
    ps = polys_in(a) + polys_in(k)
    watch = []
    if sit == "plain":
        return a, k, watch
    if not ps:
        return None
    if sit in ("ndarray-operand", "list-operand"):
        # the last polynomial operand becomes a plain numeric array / nested list of the same shape
        last = ps[-1]
        data = numpy.arange(1, last.size + 1, dtype=numpy.int64).reshape(last.shape) % 4 + 1
        repl = data if sit == "ndarray-operand" else data.tolist()
        return (map_polys(a, lambda p: repl if p is last else p), map_polys(k, lambda p: repl if p is last else p), watch)
    if sit == "canonical":          # clean storage, own data: aspolynomial hands back the caller's object
        return map_polys(a, numpoly.polynomial), map_polys(k, numpoly.polynomial), watch
    if sit == "view-of-base":
        return map_polys(a, lambda p: view_of(p, watch)), map_polys(k, lambda p: view_of(p, watch)), watch
    if len(ps) < 2:
        return None
    first = ps[0]
    if sit == "same-object":
        return map_polys(a, lambda p: first), map_polys(k, lambda p: first), watch
    if sit in ("aligned", "aligned-names"):
        try:
            al = (numpoly.align_polynomials if sit == "aligned" else numpoly.align_indeterminants)(*ps)
        except Exception:  # noqa: BLE001
            return None
        tb = {id(p): q for p, q in zip(ps, al)}
        return map_polys(a, lambda p: tb[id(p)]), map_polys(k, lambda p: tb[id(p)]), watch
    if sit == "views-of-each-other":
        if not (first.ndim >= 1 and first.flags["C_CONTIGUOUS"]):
            return None
        other = numpy.ndarray.reshape(numpy.ndarray.ravel(first), first.shape)      # same memory, another object
        cnt = []

        def alt(p):
            cnt.append(1)
            return first if len(cnt) == 1 else other
        return map_polys(a, alt), map_polys(k, alt), watch
    return None


# --------------------------------------------------------------------------------------------
# one call
# --------------------------------------------------------------------------------------------
class Tie:
    def __init__(self, report, callables):
        self.report, self.C = report, callables
        self.n_calls = 0
        self.dist = {}                  # callable -> situation -> [returned, raised]
        self.viol = []
        self.shared = {}                # callable -> set of situations in which the result is a live view
        self.distinct = set()
        self.skipped = {}

    def run(self, key, args, kwargs, situation, watch=()):
        fn = self.C.get(key)
        if fn is None:
            self.skipped[key] = "callable not available"
            return
        targets = out_positions(key, args, kwargs)
        watched = [(f"arg{i}", a) for i, a in enumerate(args) if ("pos", i) not in targets]
        watched += [(f"kw:{k}", v) for k, v in kwargs.items() if ("kw", k) not in targets]
        watched += list(watch)
        target_objs = [args[i] if kind == "pos" else kwargs[i] for kind, i in targets]
        # an argument that *is* (or shares memory with) the output target is changed at the caller's request
        def shares(a):
            for t in target_objs:
                for x in polys_in(t) + ([t] if isinstance(t, numpy.ndarray) else []):
                    for y in polys_in(a) + ([a] if isinstance(a, numpy.ndarray) else []):
                        try:
                            if numpy.shares_memory(numpy.asarray(x.values if isinstance(x, numpoly.ndpoly) else x),
                                                   numpy.asarray(y.values if isinstance(y, numpoly.ndpoly) else y)):
                                return True
                        except Exception:  # noqa: BLE001
                            return True
            return False
        watched = [(n, a) for n, a in watched if not (targets and shares(a))]
        try:
            raw_blob = pickle.dumps((args, kwargs)) if len(self.viol) < 5 else None
        except Exception:  # noqa: BLE001
            raw_blob = None
        blob = base64.b64encode(raw_blob).decode() if raw_blob is not None else None
        before = [snap(a) for _, a in watched]
        desc = None
        raised = None
        result = None
        try:
            result = fn(*args, **kwargs)
        except Exception as exc:  # noqa: BLE001
            raised = f"{type(exc).__name__}: {str(exc)[:80]}"
        self.n_calls += 1
        d = self.dist.setdefault(key, {}).setdefault(situation, [0, 0])
        d[1 if raised else 0] += 1
        after = [snap(a) for _, a in watched]
        if before != after:
            for (name, a), x, y in zip(watched, before, after):
                if x != y:
                    args0, kwargs0 = (args, kwargs) if raw_blob is None else pickle.loads(raw_blob)   # as they were before
                    desc = f"{key}({', '.join(describe(v) for v in args0)}" + \
                           ("".join(f", {k}={describe(v)}" for k, v in kwargs0.items())) + \
                           f") [{situation}] {'raised ' + raised if raised else 'returned'}: {name} changed ({diff_snap(x, y)})"
                    self.viol.append((key, situation, desc, {"callable": key, "situation": situation, "changed": name,
                                                             "raised": raised, "args_pickle_b64": blob,
                                                             "args": [describe(v) for v in args0],
                                                             "kwargs": {k: describe(v) for k, v in kwargs0.items()},
                                                             "args_after": [describe(v) for v in args]}))
                    break
            return
        self.distinct.add((key, situation, bool(raised), tuple(b[0:2] for b in before)))
        # overwrite the result in place; a result that is a live view of an argument shows up here (recorded only)
        if raised is None and result is not None:
            if self.scribble(result):
                after2 = [snap(a) for _, a in watched]
                if after2 != before:
                    self.shared.setdefault(key, set()).add(situation)

    @staticmethod
    def scribble(r, depth=0):
        done = False
        if isinstance(r, numpoly.ndpoly):
            try:
                v = r.values
                for k in v.dtype.names:
                    v[k][...] = 113
                done = True
            except Exception:  # noqa: BLE001
                pass
        elif isinstance(r, numpy.ndarray) and r.dtype != object:
            try:
                if r.dtype.names:
                    for k in r.dtype.names:
                        r[k][...] = 113
                else:
                    r[...] = 113 if r.dtype.kind != "b" else True
                    if r.dtype.kind == "b":
                        r[...] = ~r
                done = True
            except Exception:  # noqa: BLE001
                pass
        elif isinstance(r, (list, tuple)) and depth < 3:
            for e in r:
                done |= Tie.scribble(e, depth + 1)
        elif isinstance(r, dict) and depth < 3:
            for e in r.values():
                done |= Tie.scribble(e, depth + 1)
        return done


# --------------------------------------------------------------------------------------------
# the streams
# --------------------------------------------------------------------------------------------
def stream_catalogue(tie, rng, reps):
    E = catalogue.entries()
    M = catalogue.method_spellings()
    mk = mk_factory(rng)
    for name in sorted(E):
        g = E[name]
        if g is None or not hasattr(numpoly, name):
            continue
        spellings = [f"numpoly.{name}", f"numpy.{name}"] + ([f"method.{name}"] if name in M else [])
        for _ in range(reps):
            try:
                args, kwargs = g(rng, mk)
            except Exception:  # noqa: BLE001
                continue
            for sit in SITUATIONS:
                for sp in spellings:
                    if sp not in tie.C:
                        continue
                    got = apply_situation(sit, args, kwargs)     # every call gets its own objects (results are overwritten)
                    if got is None:
                        continue
                    tie.run(sp, got[0], got[1], sit, got[2])
        # out= : only the target may change
        fnp = getattr(numpoly, name)
        try:
            import inspect
            has_out = "out" in inspect.signature(fnp).parameters
        except (TypeError, ValueError):
            has_out = False
        if has_out:
            for _ in range(max(1, reps // 2)):
                try:
                    args, kwargs = g(rng, mk)
                    r = fnp(*rebuild(args, kwargs)[0], **kwargs)
                except Exception:  # noqa: BLE001
                    continue
                if not isinstance(r, (numpoly.ndpoly, numpy.ndarray)):
                    continue
                for sp in (f"numpoly.{name}", f"numpy.{name}"):
                    a2, k2 = rebuild(args, kwargs)
                    out = numpoly.polynomial(r) if isinstance(r, numpoly.ndpoly) else numpy.array(r)
                    k2 = dict(k2)
                    k2["out"] = out
                    tie.run(sp, a2, k2, "out=")
                    # aligned operands + out=
                    a3, k3 = rebuild(args, kwargs)
                    ps = polys_in(a3)
                    if len(ps) >= 2:
                        try:
                            al = numpoly.align_polynomials(*ps)
                            tb = {id(p): q for p, q in zip(ps, al)}
                            a3 = map_polys(a3, lambda p: tb[id(p)])
                        except Exception:  # noqa: BLE001
                            pass
                    k3 = dict(k3)
                    k3["out"] = numpoly.polynomial(r) if isinstance(r, numpoly.ndpoly) else numpy.array(r)
                    tie.run(sp, a3, k3, "out=+aligned")


def rebuild(args, kwargs):
    """Fresh, equal objects (polynomials rebuilt with identical storage; arrays and lists copied)."""
    def cp(x, depth=0):
        if isinstance(x, numpoly.ndpoly):
            y = numpy.ndarray.copy(x)
            y.keys = numpy.array(x.keys)       # ndarray.copy shares the keys array between original and copy
            return y
        if isinstance(x, numpy.ndarray):
            return x.copy()
        if isinstance(x, list) and depth < 4:
            return [cp(e, depth + 1) for e in x]
        if isinstance(x, tuple) and depth < 4:
            return tuple(cp(e, depth + 1) for e in x)
        if isinstance(x, dict):
            return {k: cp(v, depth + 1) for k, v in x.items()}
        return x
    return cp(tuple(args)), cp(dict(kwargs))


def fresh(x):
    """A copy with its own buffer and its own keys array."""
    return rebuild((x,), {})[0][0]


def stream_keywords(tie, rng, reps):
    """where= masks, dtype=/axis= given as arrays or lists, extra keyword arrays: none of them may change."""
    mk = mk_factory(rng)
    for _ in range(reps):
        shape = rng.choice([(2,), (2, 2), (1, 3)])
        mask = numpy.array([rng.random() < 0.6 for _ in range(int(numpy.prod(shape)))]).reshape(shape)
        for nm in ("add", "subtract", "multiply", "negative", "absolute", "positive", "square", "floor_divide", "equal",
                   "not_equal", "logical_and", "logical_or", "isfinite", "ceil", "floor", "rint"):
            unary = nm in ("negative", "absolute", "positive", "square", "isfinite", "ceil", "floor", "rint")
            ops = (mk(shape),) if unary else (mk(shape), mk(shape, const=nm == "floor_divide", nonzero=True))
            for sp in (f"numpoly.{nm}", f"numpy.{nm}"):
                for sit in ("plain", "aligned"):
                    a = rebuild(ops, {})[0]
                    if sit == "aligned" and not unary:
                        try:
                            a = tuple(numpoly.align_polynomials(*a))
                        except Exception:  # noqa: BLE001
                            continue
                    tie.run(sp, a, {"where": mask.copy()}, f"where=+{sit}")
                    tie.run(sp, rebuild(ops, {})[0], {"where": mask.tolist()}, "where=list")
        p = mk((2, 3))
        for nm, kw in (("sum", {"axis": [0]}), ("sum", {"axis": (0, 1)}), ("mean", {"axis": numpy.array(0)}), ("prod", {"axis": [1]}),
                       ("repeat", {"repeats": numpy.array([1, 2]), "axis": 0}), ("tile", {"reps": [2, 1]}),
                       ("reshape", {"shape": [3, 2]}), ("transpose", {"axes": [1, 0]}), ("moveaxis", {"source": [0], "destination": [1]}),
                       ("split", {"indices_or_sections": numpy.array([1]), "axis": 1}), ("array_split", {"indices_or_sections": [1, 2], "axis": 1}),
                       ("diff", {"prepend": mk((2, 1)), "append": mk((2, 1)), "axis": 1}), ("ediff1d", {"to_end": mk((2,)), "to_begin": [1, 2]}),
                       ("full_like", {"fill_value": mk(()), "shape": [2, 2]}), ("zeros_like", {"shape": [2]}),
                       ("around", {"decimals": 1}), ("expand_dims", {"axis": 1})):
            for sp in (f"numpoly.{nm}", f"numpy.{nm}"):
                a, k = rebuild((p,), kw)
                tie.run(sp, a, k, "keyword-arrays")
        c = numpy.array([[True, False, True], [False, True, False]])
        for sp in ("numpoly.where", "numpy.where"):
            tie.run(sp, (c.copy(), *rebuild((p, mk((2, 3))), {})[0]), {}, "condition-array")
            tie.run(sp, (c.tolist(), *rebuild((p, mk((2, 3))), {})[0]), {}, "condition-list")
            tie.run(sp, (fresh(p), *rebuild((p, mk((2, 3))), {})[0]), {}, "condition-polynomial")


def stream_raising(tie, rng, reps):
    """Calls that raise (or may raise) half-way."""
    mk = mk_factory(rng)
    for _ in range(reps):
        p2, p3 = mk((2,)), mk((3,))
        for nm in ("add", "subtract", "multiply", "equal", "not_equal", "greater", "less", "maximum", "minimum", "logical_and",
                   "where", "inner", "outer", "matmul", "isclose", "allclose", "floor_divide", "divide", "remainder", "divmod"):
            for sp in (f"numpoly.{nm}", f"numpy.{nm}"):
                if nm == "where":
                    a = (numpy.array([True, False]), *rebuild((p2, p3), {})[0])
                else:
                    a = rebuild((p2, p3), {})[0]
                tie.run(sp, a, {}, "raise:shape-mismatch")
        x = mk((2, 2))
        nc = mk((2, 2))
        for nm in ("floor_divide", "divide", "remainder", "divmod", "power"):
            for sp in (f"numpoly.{nm}", f"numpy.{nm}"):
                a = rebuild((x, nc), {})[0]
                tie.run(sp, a, {}, "raise:non-constant-divisor")
                al = numpoly.align_polynomials(*rebuild((x, nc), {})[0])
                tie.run(sp, tuple(al), {}, "raise:non-constant-divisor+aligned")
        for nm, a, k in (("reshape", (mk((2, 3)), (4,)), {}), ("sum", (mk((2,)),), {"axis": 3}), ("concatenate", ([mk((2,)), mk((2, 2))],), {}),
                         ("stack", ([mk((2,)), mk((3,))],), {}), ("transpose", (mk((2, 3)),), {"axes": (0, 0)}),
                         ("repeat", (mk((2,)), -1), {}), ("split", (mk((3,)), 2), {}), ("diagonal", (mk((3,)),), {}),
                         ("det", (mk((2, 3)),), {}), ("prod", (mk((2,)),), {"axis": 2}), ("mean", (mk((2,)),), {"axis": 2}),
                         ("cumsum", (mk((2,)),), {"axis": 2}), ("choose", (numpy.array([0, 5]), [mk((2,)), mk((2,))]), {}),
                         ("expand_dims", (mk((2,)),), {"axis": 5}), ("moveaxis", (mk((2, 2)), 0, 4), {}), ("tile", (mk((2,)), "x"), {}),
                         ("amax", (mk((2,)),), {"axis": 3}), ("argmax", (mk((2,)),), {"axis": 3}), ("diff", (mk((2,)),), {"axis": 3})):
            for sp in (f"numpoly.{nm}", f"numpy.{nm}"):
                a2, k2 = rebuild(a, k)
                tie.run(sp, a2, k2, "raise:bad-argument")
        p = mk((2,))
        tie.run("call", (fresh(p),), {"q9": 1}, "raise:unknown-name")
        tie.run("call", (fresh(p), 1, 2, 3, 4, 5, 6, 7), {}, "raise:too-many-arguments")
        nm0 = p.names[0]
        tie.run("call", (fresh(p), 1), {nm0: 2}, "raise:duplicate-argument")
        tie.run("call", (fresh(p), numpy.array([1, 2, 3])), {nm0 + "0": numpy.array([1, 2])}, "raise:unknown-name+array")
        tie.run("derivative", (fresh(p), "q77"), {}, "raise:unknown-name")
        tie.run("derivative", (fresh(p), mk((2,))), {}, "raise:non-variable")
        tie.run("polynomial_from_attributes", ([[0], [0]], [numpy.array([1, 2]), numpy.array([3, 4])]), {}, "raise:duplicate-exponents")
        tie.run("polynomial_from_attributes", ([[0], [1]], [numpy.array([1, 2])]), {}, "raise:length-mismatch")
        tie.run("polynomial_from_attributes", (numpy.array([[0, 1], [1, 0]]), [numpy.array([1, 2]), numpy.array([3, 4])], ("q0", "q0")), {}, "raise:duplicate-names")
        tie.run("tonumpy", (fresh(p),), {}, "raise:non-constant")
        tie.run("method.tonumpy", (fresh(p),), {}, "raise:non-constant")
        tie.run("set_dimensions", (fresh(p), -1), {}, "raise:bad-argument")
        tie.run("getitem", (fresh(p), 7), {}, "raise:index")
        tie.run("getitem", (fresh(p), (0, 0, 0)), {}, "raise:index")
        tie.run("numpoly.copyto", (numpy.zeros(2), fresh(p)), {}, "raise:copyto-non-constant")
        tie.run("numpy.copyto", (mk((3,)), fresh(p)), {}, "raise:copyto-shape")
        tie.run("method.astype", (fresh(p), "no-such-dtype"), {}, "raise:bad-argument")


def stream_numpoly_only(tie, rng, reps, division_budget):
    mk = mk_factory(rng)
    shapes = [(), (1,), (2,), (3,), (2, 2), (1, 3), (2, 1, 2)]

    def variants(p):
        w = []
        yield "plain", fresh(p), []
        yield "canonical", numpoly.polynomial(p), []
        if p.size:
            yield "view-of-base", view_of(fresh(p), w), w
        if p.ndim >= 2:
            yield "transposed-view", fresh(p).T, []

    for _ in range(reps):
        shape = rng.choice(shapes)
        p = mk(shape)
        q = mk(rng.choice(shapes))
        for key in ("gradient", "hessian", "decompose", "lead_exponent", "lead_coefficient", "sortable_proxy", "isconstant",
                    "method.isconstant", "method.todict", "method.copy", "method.ravel", "method.flatten", "prop.coefficients",
                    "prop.exponents", "prop.values", "prop.T", "prop.indeterminants", "prop.keys", "prop.names", "prop.flat",
                    "prop.dtype", "iter", "str", "repr", "pickle", "copy.copy", "copy.deepcopy", "aspolynomial", "polynomial",
                    "clean_attributes", "savetxt", "align_polynomials", "align_shape", "align_exponents", "align_indeterminants",
                    "method.round", "method.max", "method.min", "method.mean", "ufunc.reduce.add", "ufunc.reduce.multiply",
                    "ufunc.accumulate.add", "result_type", "to_sympy"):
            if key == "iter" and not p.ndim:
                continue
            for sit, x, w in variants(p):
                tie.run(key, (x,), {}, sit, w)
        # conversions with options
        for sit, x, w in variants(p):
            tie.run("aspolynomial", (x,), {"names": tuple(x.names)}, sit + "+same-names", w)
            tie.run("aspolynomial", (x,), {"dtype": x.dtype}, sit + "+same-dtype", w)
        for sit, x, w in variants(p):
            tie.run("polynomial", (x,), {"dtype": float}, sit, w)
            tie.run("method.astype", (x, float), {}, sit, w)
            tie.run("method.astype", (x, x.dtype), {}, sit + "+same-dtype", w)
        # several polynomials: alignment functions with same / aligned / view operands
        for key in ("align_polynomials", "align_shape", "align_exponents", "align_indeterminants", "result_type"):
            a = rebuild((p, q), {})[0]
            tie.run(key, a, {}, "plain")
            a = rebuild((p,), {})[0]
            tie.run(key, (a[0], a[0]), {}, "same-object")
            try:
                al = numpoly.align_polynomials(*rebuild((p, q), {})[0])
                tie.run(key, tuple(al), {}, "aligned")
                al = numpoly.align_polynomials(*rebuild((p, q), {})[0])
                tie.run(key, (al[0], al[1], 3, numpy.array([1.0])), {}, "aligned+numeric")
            except Exception:  # noqa: BLE001
                pass
        # attribute-level constructors: lists of arrays are arguments too
        lay_e = p.exponents.copy()
        lay_c = [numpy.array(c) for c in p.coefficients]
        for key in ("polynomial_from_attributes", "ndpoly.from_attributes"):
            tie.run(key, (lay_e.copy(), [c.copy() for c in lay_c], tuple(p.names)), {}, "plain")
            tie.run(key, (lay_e.tolist(), [c.copy() for c in lay_c], tuple(p.names)), {"retain_coefficients": True, "retain_names": True}, "retain")
            if lay_c:
                same = lay_c[0].copy()
                tie.run(key, (lay_e.copy(), [same for _ in lay_c], tuple(p.names)), {}, "same-object")
                base = numpy.stack([c.copy() for c in lay_c])
                tie.run(key, (lay_e.copy(), [base[i] for i in range(len(lay_c))], tuple(p.names)), {}, "view-of-base", [("view-base", base)])
                tie.run(key, (lay_e.copy(), list(base), tuple(p.names)), {"dtype": float}, "view-of-base+dtype", [("view-base", base)])
        tie.run("remove_redundant_coefficients", (lay_e.copy(), [c.copy() for c in lay_c]), {}, "plain")
        tie.run("remove_redundant_names", (lay_e.copy(), tuple(p.names)), {}, "plain")
        tie.run("polynomial", ({tuple(int(v) for v in e): c.copy() for e, c in zip(lay_e.tolist(), lay_c)},), {}, "dict")
        tie.run("polynomial", ([fresh(p), fresh(p)],), {}, "list-of-polynomials")
        tie.run("polynomial", ([[1, 2], [3, 4]],), {}, "nested-list")
        tie.run("polynomial", (numpy.arange(6).reshape(2, 3),), {}, "ndarray")
        tie.run("polynomial", (fresh(p).values,), {}, "structured-array")
        # call
        names = list(p.names)
        for sit, x, w in variants(p):
            vals = [rng.choice([rng.randint(-2, 3), numpy.array([1, 2]), numpy.array([[1.0, 2.0]]), mk(()), mk((2,)), None]) for _ in names]
            tie.run("call", (x, *rebuild(tuple(vals), {})[0]), {}, sit, w)
            kw = {n: v for n, v in zip(names, rebuild(tuple(vals), {})[0]) if v is not None and rng.random() < 0.7}
            tie.run("call", (x,), kw, sit + "+keywords", w)
            tie.run("numpoly.call", (x, list(rebuild(tuple(vals), {})[0])), {}, sit + "+list", w)
            tie.run("call", (x, *[x for _ in names]), {}, sit + "+itself", w)
        # derivative
        for sit, x, w in variants(p):
            tie.run("derivative", (x, rng.choice(names)), {}, sit, w)
            tie.run("derivative", (x, 0), {}, sit + "+index", w)
            tie.run("derivative", (x, numpoly.symbols(rng.choice(names))), {}, sit + "+symbol", w)
            tie.run("derivative", (x, *names), {}, sit + "+all", w)
        # queries with flags
        for key in ("lead_exponent", "lead_coefficient", "sortable_proxy"):
            tie.run(key, (fresh(p),), {"graded": True, "reverse": True}, "flags")
        tie.run("set_dimensions", (fresh(p), rng.randint(1, 4)), {}, "plain")
        tie.run("set_dimensions", (numpoly.polynomial(p), len(p.names)), {}, "same-dimensions")
        tie.run("tonumpy", (mk(shape, const=True),), {}, "constant")
        tie.run("method.tonumpy", (mk(shape, const=True),), {}, "constant")
        # indexing
        if p.ndim:
            idxs = [0, -1, slice(None), slice(0, 1), Ellipsis, numpy.array([0]), numpy.array([True] + [False] * (p.shape[0] - 1)),
                    (slice(None),) + (0,) * (p.ndim - 1), None, [0]]
            for i in idxs:
                for sit, x, w in variants(p):
                    tie.run("getitem", (x, i), {}, sit, w)
        else:
            for i in ((), Ellipsis, None):
                tie.run("getitem", (fresh(p), i), {}, "0-d")
        # in-place operators: the left operand is the caller's explicit target, the right one is not
        for key in ("op.iadd", "op.isub", "op.imul"):
            try:
                a, b = numpoly.align_polynomials(*rebuild((p, mk(shape)), {})[0])
                tie.run(key, (a, b), {}, "aligned")
                tie.run(key, (fresh(p), 2), {}, "scalar")
            except Exception:  # noqa: BLE001
                pass
        # copyto: destination changes, source must not
        try:
            src = mk(shape).astype(p.dtype)
            dst, s2 = numpoly.align_polynomials(*rebuild((p, src), {})[0])
            tie.run("numpoly.copyto", (dst, s2), {}, "aligned")
            dst, s2 = numpoly.align_polynomials(*rebuild((p, src), {})[0])
            tie.run("numpy.copyto", (dst, s2), {}, "aligned")
            dst, s2 = numpoly.align_polynomials(*rebuild((p, src), {})[0])
            tie.run("numpy.copyto", (dst, s2), {"where": numpy.ones(dst.shape, dtype=bool)}, "aligned+where")
            tie.run("numpoly.copyto", (numpy.zeros(shape), mk(shape, const=True)), {}, "ndarray-destination")
        except Exception:  # noqa: BLE001
            pass
        # like=-style constructors, index generators with array arguments
        tie.run("monomial", (numpy.array([0, 0]), numpy.array([2, 3])), {}, "arrays")
        tie.run("monomial", (numpy.array(3),), {"dimensions": 2, "cross_truncation": numpy.array([1.0, 2.0])}, "arrays")
        tie.run("glexindex", (numpy.array([0, 1]), numpy.array([3, 3])), {"cross_truncation": numpy.array([1.0, 1.5])}, "arrays")
        tie.run("glexindex", ([0, 0], [2, 3]), {"graded": True, "reverse": True}, "lists")
        tie.run("bindex", (numpy.array([1, 0]), numpy.array([3, 2])), {"ordering": "GRI"}, "arrays")
        k = numpy.array([[3, 1, 2, 0], [0, 2, 1, 3]])
        tie.run("glexsort", (k,), {"graded": True, "reverse": True}, "array")
        tie.run("glexsort", (k.T.copy().T,), {}, "transposed-view")
        tie.run("glexsort", ([[1, 0], [0, 1]],), {}, "list")
        tie.run("cross_truncate", (numpy.array([[0, 1], [2, 0], [1, 1]]), numpy.array([2, 0]), 1.0), {}, "arrays")
        tie.run("cross_truncate", (numpy.array([[0, 1], [2, 0], [1, 1]]), [2, 2], 0), {}, "arrays")
        tie.run("symbols", (("q0", "q1"),), {}, "tuple")
        tie.run("variable", (2,), {}, "plain")
        tie.run("polynomial_from_roots", (numpy.array([1, 2, 3]),), {}, "array")
        tie.run("polynomial_from_roots", ([1, 2],), {}, "list")
        if "roots" in tie.C:
            u = numpoly.variable()
            tie.run("roots", (u ** 2 - 3 * u + 2,), {}, "univariate")
        tie.run("numpoly.ones", ((2, 2),), {"dtype": int}, "plain")
        tie.run("numpoly.zeros", ([2, 1],), {}, "list-shape")
        tie.run("op.and", (fresh(p), fresh(p)), {}, "unsupported-operator")
        tie.run("op.or", (fresh(p), 1), {}, "unsupported-operator")

    # polynomial division: each call in a forked child (the loop is known not to terminate on some inputs)
    t0 = time.time()
    n_div = 0
    cases = []
    v = numpoly.variable(2)
    for _ in range(reps * 3):
        kind = rng.choice(["univariate", "monomial-divisor", "constant-divisor", "general", "same-object", "zero-d"])
        if kind == "univariate":
            a = sum(rng.randint(-3, 3) * v[0] ** k for k in range(4)) + 1
            b = v[0] ** rng.randint(1, 2) + rng.randint(-2, 2)
            a, b = numpoly.polynomial([a, a * 2]), numpoly.polynomial([b, b])
        elif kind == "monomial-divisor":
            a, b = mk((2,)), numpoly.polynomial([v[0], v[0] * v[1]])
        elif kind == "constant-divisor":
            a, b = mk((2, 2)), mk((2, 2), const=True, nonzero=True)
        elif kind == "zero-d":
            a, b = v[0] ** 2 * v[1] + v[1] + 1, v[0] + 1
        elif kind == "same-object":
            a = mk((2,))
            b = a
        else:
            a, b = mk((2,)), mk((2,))
        for key in ("poly_divmod", "poly_divide", "poly_remainder", "op.truediv", "op.mod", "op.divmod"):
            cases.append((key, kind, a, b))
    for key, kind, a, b in cases:
        if time.time() - t0 > division_budget:
            tie.skipped["division-budget"] = f"stopped after {n_div} of {len(cases)} division calls"
            break
        n_div += 1

        def one(key=key, kind=kind, a=a, b=b):
            sub = Tie(None, tie.C)
            for sit in ("plain", "aligned", "view-of-base"):
                x, y = rebuild((a, b), {})[0]
                if kind == "same-object":
                    y = x
                w = []
                if sit == "aligned" and kind != "same-object":
                    x, y = numpoly.align_polynomials(x, y)
                if sit == "view-of-base":
                    x = view_of(x, w)
                    y = x if kind == "same-object" else view_of(y, w)
                sub.run(key, (x, y), {}, f"{kind}+{sit}", w)
            return (sub.n_calls, sub.dist, sub.viol, {k: sorted(v) for k, v in sub.shared.items()}, sorted(map(repr, sub.distinct)))
        st, val = core.forked(one, timeout=6)
        if st != "ok":
            tie.skipped.setdefault("division-timeouts", []).append(f"{key}:{kind}:{st}")
            continue
        n, dist, viol, shared, distinct = val
        tie.n_calls += n
        for k, d in dist.items():
            for s, (a0, b0) in d.items():
                e = tie.dist.setdefault(k, {}).setdefault(s, [0, 0])
                e[0] += a0
                e[1] += b0
        tie.viol += viol
        for k, s in shared.items():
            tie.shared.setdefault(k, set()).update(s)
        tie.distinct.update(distinct)


# --------------------------------------------------------------------------------------------
def coq_diagnose(info):
    """Which functions does the Coq checker reject, and (Python mirror, diagnostics only) why."""
    from harness.translators import effects_tr
    cc = core.CoqCases("C17", "From Coq Require Import List.\nFrom NP Require Import Effects GenEffects.\nImport ListNotations.\n")
    out = cc.eval_term("let s := infer0 30 gen_table in (table_ok gen_table s, unsafe_funs gen_table s)")
    m = re.search(r"=\s*\((true|false),\s*\[?([\d;\s]*)\]?", out)
    rejected = None
    if m:
        rejected = [int(x) for x in re.findall(r"\d+", m.group(2))]
    names = info["names"]
    blame, roots = {}, []
    try:
        res = effects_tr.py_analyse(info)
        for q, r in res.items():
            if r["undeclared"]:
                blame[q] = {a: sorted(v, key=lambda b: ("in-place" not in b, b))[:4] for a, v in r["undeclared"].items()}
                for a, v in r["undeclared"].items():
                    roots += [f"{q}: parameter {a}: {b}" for b in v if "in-place" in b]
    except Exception as exc:  # noqa: BLE001
        blame = {"error": str(exc)}
    return {"coq_output": out[-400:] if rejected is None else None,
            "table_ok": None if not m else m.group(1) == "true",
            "rejected": None if rejected is None else [names[i] for i in rejected if i < len(names)],
            "root_stores": sorted(set(roots)), "blame": blame}


def run(report, tier, seed):
    from harness.translators import effects_tr
    tr_ok, info = True, None
    known_unsafe = effects_tr.known_unsafe_functions()
    try:
        info = effects_tr.generate(core.REPO, core.COQ, known_unsafe)
    except Exception as exc:  # noqa: BLE001
        tr_ok = False
        report.notes.append(f"translator failed: {type(exc).__name__}: {exc}")
    ok = tr_ok and core.prove(report, TARGETS)
    diag = None
    if tr_ok and not ok:
        diag = coq_diagnose(info)
        report.coverage["analysis_rejections"] = diag

    rng = core.rng_for(seed, "C17")
    C = build_callables()
    tie = Tie(report, C)
    reps = 3 if tier == "quick" else 40
    if diag and diag.get("rejected"):
        reps *= 3                                  # the analysis lost a function: search harder for a concrete call
    t0 = time.time()
    stream_catalogue(tie, rng, reps)
    stream_keywords(tie, rng, 1 if tier == "quick" else 8)
    stream_raising(tie, rng, 1 if tier == "quick" else 8)
    stream_numpoly_only(tie, rng, 5 if tier == "quick" else 80, 15 if tier == "quick" else 300)
    report.notes.append(f"dynamic tie: {tie.n_calls} calls in {time.time() - t0:.1f}s")

    # ---- evidence ------------------------------------------------------------------------------
    sit_totals = {}
    for k, d in tie.dist.items():
        for s, (a, b) in d.items():
            e = sit_totals.setdefault(s.split("+")[0] if s.startswith(("plain", "canonical", "view-of-base", "transposed-view")) else s, [0, 0])
            e[0] += a
            e[1] += b
    report.sample({"callables": len(tie.dist), "calls": tie.n_calls, "situations": {k: v for k, v in sorted(sit_totals.items())[:12]}})
    report.coverage.update({
        "evaluations": tie.n_calls, "distinct_nontrivial": len(tie.distinct),
        "rule": "operation catalogue (every registered numpy function with a generator: numpy, numpoly and method/operator "
                "spelling) x aliasing situations {plain, same-object, aligned, aligned-names, views-of-each-other, view-of-base, "
                "canonical, ndarray-operand, list-operand, out=, out=+aligned}; where= masks and keyword arrays/lists; calls that raise (shape mismatch, non-constant divisor, bad axis/index, unknown "
                "names, malformed attributes); numpoly-only callables (call, derivative/gradient/hessian, division in forked "
                "children, align_*, constructors from attributes/dicts/lists/structured arrays, queries, properties, indexing, "
                "iteration, pickle/copy, in-place operators, copyto, index generators). Every argument (deep for lists/dicts, "
                "plus the base array of view operands) is snapshotted (shape, dtype, names, exponents, storage dtype, keys, "
                "coefficient bytes per term) before and compared after the call, returned or raised; distinct = "
                "(callable, situation, outcome, operand kinds/shapes)",
        "per_callable": {k: {s: {"returned": a, "raised": b} for s, (a, b) in sorted(d.items())} for k, d in sorted(tie.dist.items())},
        "per_situation": {k: {"returned": a, "raised": b} for k, (a, b) in sorted(sit_totals.items())},
        "results_sharing_memory_with_an_argument": {k: sorted(v) for k, v in sorted(tie.shared.items())},
        "skipped": tie.skipped,
        "translator": "ok" if tr_ok else "failed",
        "translator_stats": None if info is None else {
            "functions": len(info["functions"]), "instructions": sum(f["instructions"] for f in info["functions"]),
            "in_place_stores": sum(f["writes"] for f in info["functions"]), "calls": info["stats"]["calls"],
            "flow_insensitive": [f["qual"] for f in info["functions"] if f["weak"]],
            "inlined_nested_functions": info["stats"]["inlined"], "callback_calls": info["stats"]["callbacks"],
            "dispatch_all_sites": info["stats"]["dispatch_all"], "numpy_calls": info["stats"]["numpy_calls"],
            "immutable_parameters_pruned": sum(len(f["pruned"]) for f in info["functions"]),
            "declared_outputs": {f["qual"]: f["declared"] for f in info["functions"] if f["declared"]},
            "expected_unsafe": known_unsafe},
        "classification_tables": effects_tr.tables(),
    })

    # ---- verdicts -------------------------------------------------------------------------------
    seen, known_seen = set(), set()
    for key, sit, desc, rep in tie.viol:
        kf = report.match_known(f"argument-modified:{key}") or report.match_known(f"argument-modified:{key}:{sit}")
        if kf:
            if kf["id"] not in known_seen:
                known_seen.add(kf["id"])
                report.known_finding(kf["id"], kf["what"] + " — e.g. " + desc[:220])
            continue
        if key in seen:
            continue
        seen.add(key)
        report.violation("C17: " + desc, {"kind": "argument-modified", **rep})
    if not report.violations and not ok:
        if not tr_ok:
            what = "effect translator could not read /repo/numpoly: " + "; ".join(report.notes[:1])
        elif diag and diag.get("rejected"):
            newly = [q for q in diag["rejected"] if q not in known_unsafe]
            why = "; ".join(diag.get("root_stores", [])[:4]) or \
                "; ".join(f"{q}: {list(diag['blame'].get(q, {}).items())[:1]}" for q in newly[:3])
            what = (f"all_safe no longer checks: {len(newly)} function(s) may write a parameter that is not a declared "
                    f"output target; in-place stores that can reach a parameter: {why}")
        else:
            what = "proof obligation no longer checks: " + str(report.coverage.get("broken_obligation", {}).get("where"))
        report.violation(f"C17: {what}; {tie.n_calls} snapshot-checked calls found no modified argument"[:1500],
                         {"kind": "broken-proof", "theorem": "Bridge/BridgeEffects.v all_safe / Props/P_C17.v",
                          "analysis_rejections": diag, **report.coverage.get("broken_obligation", {})}, found_input=False)
    report.coverage["trusted_base"] = [
        "Coq 8.16.1 kernel + VM (stdlib only)",
        "translator harness/translators/effects_tr.py: Python ast -> effect IR, with the classification tables dumped above "
        "(numpy callables, methods, builtins, attributes, compiled helpers, declared output targets, immutable annotations)",
        "harness: snapshot function, operand generators, aliasing constructions"]
    report.assumptions += [
        "numpy functions classified fresh/box/view do not write their inputs; cfrom_attributes writes only its 2nd, cmultiply only its 6th argument (read from the .pyx)",
        "user callbacks (apply_along_axis/apply_over_axes functions, numpy_func passed to simple_dispatch) do not write their arguments except through out=",
        "module-level state (option store, registries, default where=numpy.array(True)) holds no caller array",
        "parameters annotated int/bool/str/float/DTypeLike/Callable carry no writable buffer; coefficients/exponents/indeterminants/values are read from ndpoly objects only",
        "the two dispatch hooks forward (*inputs, **kwargs); for them and for **kwargs of functions without an out parameter the "
        "analysis cannot separate out= from the other forwarded values (the numpy spellings are covered by the snapshots)",
        "generator expressions are consumed where they are created; coefficient dtypes are numeric (no object arrays of arrays)",
        "the IR semantics is a may-semantics per write event: an execution picks one element of a container at a time",
    ]


def replay(path):
    data = json.load(open(path))
    rep = data["replay"]
    print(json.dumps({k: v for k, v in rep.items() if k != "args_pickle_b64"}, indent=1)[:3000])
    if rep.get("args_pickle_b64"):
        args, kwargs = pickle.loads(base64.b64decode(rep["args_pickle_b64"]))
        C = build_callables()
        tie = Tie(None, C)
        tie.run(rep["callable"], args, kwargs, rep.get("situation", "replay"))
        if tie.viol:
            print("re-run on the implementation: STILL FAILS:", tie.viol[0][2])
            return 1
        print("re-run on the implementation: arguments unchanged (note: aliasing between arguments is not preserved by pickle)")
    return 0
