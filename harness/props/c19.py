"""C19 — leading-term queries, decomposition and the sort proxy match the polynomial."""
from __future__ import annotations

import json

import numpy
import numpoly

from harness import core, gen

HEADER = """From Coq Require Import ZArith.
From mathcomp Require Import all_ssreflect all_algebra ssrZ.
From NP Require Import Base Poly Harness Order Compare Query.
Delimit Scope Z_scope with CZ.
Local Notation P := ZParr.
Local Notation D := dflt_opts.
(* sortable_proxy: equal to the model, except that numpy's final (default-kind) argsort may order several elements
   that were never ranked (raw proxy 0: leading exponent not a stored exponent) in any way *)
Definition proxy_ok (raw model impl : seq nat) : bool :=
  if (count (pred1 0%nat) raw <= 1)%nat then model == impl
  else perm_eq impl (iota 0 (size raw)) &&
       all (fun i => all (fun j => (nth 0%nat raw i < nth 0%nat raw j)%nat ==> (nth 0%nat impl i < nth 0%nat impl j)%nat)
                         (iota 0 (size raw))) (iota 0 (size raw)).
"""
TARGETS = ["Gen/GenQuery.vo", "Bridge/BridgeQuery.vo", "Props/P_C19.vo"]


def okey(g, r, m):
    return ((sum(m),) if g else ()) + (tuple(m) if r else tuple(reversed(m)))


def elem_terms(lay, i):
    return {tuple(r): c[i] for r, c in zip(lay["rows"], lay["cols"]) if c[i] != 0}


def run(report, tier, seed):
    from harness.translators import query_tr
    tr_ok = True
    try:
        facts = query_tr.generate(core.REPO, core.COQ)
        report.coverage["source_facts"] = {fn: [nm for nm, v in d.items() if not v] for fn, d in facts.items()}
    except Exception as exc:  # noqa: BLE001
        tr_ok = False
        report.notes.append(f"translator failed ({type(exc).__name__}: {exc})")
    ok = core.prove(report, TARGETS if tr_ok else ["Proofs/QueryP.vo", "Proofs/ProxyP.vo", "Proofs/SetDimP.vo"]) and tr_ok
    rng = core.rng_for(seed, "C19")
    cc = core.CoqCases("C19", HEADER, shard=250)
    viol = []
    n = 500 if tier == "quick" else 8000
    n_eval = 0
    nontrivial = set()

    def note(kind, what, rep):
        viol.append((kind, what, rep))

    for k in range(n):
        shape = gen.rand_shape(rng, 2)
        names = gen.rand_names(rng, 3)
        p = gen.rand_poly(rng, shape, names, nterms=rng.choice([0, 1, 2, 3, 5]), maxexp=3,
                          dtype=numpy.int64, raw=rng.random() < 0.4)
        if rng.random() < 0.25:      # constants
            p = gen.rand_poly(rng, shape, names, nterms=1, maxexp=0, dtype=numpy.int64)
        if rng.random() < 0.06:
            # constants that store all-zero non-constant terms (retain_coefficients=True), the constant term somewhere
            # among them or not stored at all (then the polynomial is zero)
            size_ = int(numpy.prod(shape)) if shape else 1
            D_ = len(names)
            rows_ = list({tuple(rng.choice([0, 1, 2]) for _ in range(D_)) for _ in range(rng.randint(1, 3))} - {(0,) * D_})
            cols_ = [numpy.zeros(shape, dtype=numpy.int64) for _ in rows_]
            if rng.random() < 0.6 or not rows_:
                at = rng.randint(0, len(rows_))
                rows_.insert(at, (0,) * D_)
                cols_.insert(at, numpy.array([rng.randint(-3, 3) for _ in range(size_)], dtype=numpy.int64).reshape(shape))
            p = numpoly.polynomial_from_attributes(rows_, cols_, tuple(f"q{i}" for i in names), retain_coefficients=True, retain_names=True)
        lay = core.poly_layout(p)
        tp = core.coq_parr(lay)
        size = int(numpy.prod(shape)) if shape else 1
        D = len(lay["names"])
        g, r = rng.random() < 0.5, rng.random() < 0.5
        n_eval += 1
        desc = gen.describe(p)
        # --- lead_exponent / lead_coefficient ---------------------------------------------------
        try:
            le = numpy.asarray(numpoly.lead_exponent(p, graded=g, reverse=r)).reshape(size, D).tolist()
            lc = [core.exact_int(v) for v in numpy.asarray(numpoly.lead_coefficient(p, graded=g, reverse=r)).ravel().tolist()]
        except Exception as exc:  # noqa: BLE001
            note("lead-raise", f"lead_exponent/lead_coefficient raised {type(exc).__name__}: {exc} on {desc}", {"poly": lay})
            continue
        for i in range(size):
            terms = elem_terms(lay, i)
            if terms:
                top = max(terms, key=lambda m: okey(g, r, m))
                want_e, want_c = list(top), terms[top]
                if len(terms) > 1:
                    nontrivial.add((desc, i, g, r))
            else:
                want_e, want_c = [0] * D, 0
            if le[i] != want_e or lc[i] != want_c:
                note("lead", f"lead term of element {i} of {desc} (graded={g}, reverse={r}): got exponent {le[i]} "
                             f"coefficient {lc[i]}, largest non-zero term is {want_e} / {want_c}",
                     {"poly": lay, "graded": g, "reverse": r, "element": i, "impl": [le[i], lc[i]]})
                break
        gb, rb = core.cbool(g), core.cbool(r)
        cc.add(f"(zlead_exponent {gb} {rb} {tp} == {core.cseq(core.cnats(x) for x in le)}) && "
               f"(zlead_coefficient {gb} {rb} {tp} == {core.cseq(core.cz(v) for v in lc)})",
               {"kind": "lead", "poly": desc, "graded": g, "reverse": r})
        # --- isconstant / tonumpy -------------------------------------------------------------
        isc = bool(numpoly.isconstant(p))
        want_const = all(not any(m) for i in range(size) for m in elem_terms(lay, i))
        if isc != want_const:
            note("isconstant", f"isconstant({desc}) = {isc}", {"poly": lay})
        try:
            tn = numpy.asarray(p.tonumpy())
            exp = f"(NOk {core.cnats(tn.shape)} {core.cseq(core.cz(core.exact_int(v)) for v in tn.ravel().tolist())})"
            if not want_const:
                note("tonumpy", f"tonumpy of the non-constant {desc} returned {tn.tolist()}", {"poly": lay})
            else:
                vals = [elem_terms(lay, i).get((0,) * D, 0) for i in range(size)]
                if [core.exact_int(v) for v in tn.ravel().tolist()] != vals or list(tn.shape) != lay["shape"]:
                    note("tonumpy", f"tonumpy({desc}) = {tn.tolist()}", {"poly": lay})
        except numpoly.FeatureNotSupported:
            exp = "(NErr FeatureNotSupported)"
            if want_const:
                note("tonumpy", f"tonumpy raised for the constant {desc}", {"poly": lay})
        except Exception as exc:  # noqa: BLE001
            exp = f"(NErr {core.err_enum(exc)})"
            if want_const:
                note("tonumpy", f"tonumpy raised {type(exc).__name__}: {exc} for the constant {desc} (stored exponents {lay['rows']})", {"poly": lay})
        cc.add(f"(zisconstant {tp} == {core.cbool(isc)}) && chk_num (ztonumpy {tp}) {exp}", {"kind": "const", "poly": desc})
        # --- todict --------------------------------------------------------------------------
        td = p.todict()
        back = {}
        for e, c in td.items():
            for i, v in enumerate(numpy.asarray(c).ravel().tolist()):
                if v:
                    back.setdefault(i, {})[tuple(int(x) for x in e)] = core.exact_int(v)
        if any(back.get(i, {}) != elem_terms(lay, i) for i in range(size)):
            note("todict", f"todict of {desc} does not list the polynomial's terms", {"poly": lay})
        # --- decompose -----------------------------------------------------------------------
        if size <= 6:
            try:
                dc = numpoly.decompose(p)
                sh, els = core.canon_elements(dc)
                cc.add(f"chk (Ok (zdecompose {tp})) (EOk {core.coq_obs(sh, els)})", {"kind": "decompose", "poly": desc})
                if sh[1:] != lay["shape"] or any(len(e) > 1 for e in els):
                    note("decompose", f"decompose({desc}): shape {sh} or a slice with several monomials", {"poly": lay})
                else:
                    for i in range(size):
                        tot = {}
                        for s in range(sh[0]):
                            for m, c in els[s * size + i]:
                                tot[m] = tot.get(m, 0) + c
                        want = {tuple(sorted((v, e) for v, e in zip(lay["names"], m) if e)): c for m, c in elem_terms(lay, i).items()}
                        if {m: c for m, c in tot.items() if c} != want:
                            note("decompose", f"slices of decompose({desc}) do not sum to element {i}", {"poly": lay})
                            break
            except Exception as exc:  # noqa: BLE001
                note("decompose-raise", f"decompose({desc}) raised {type(exc).__name__}: {exc}", {"poly": lay})
        # --- set_dimensions ------------------------------------------------------------------
        if all(v < 10 for v in lay["names"]):        # any names below q10 (string order = index order there), gaps included
            d = rng.randint(1, 5)
            try:
                sd = numpoly.set_dimensions(p, d)
                sh, els = core.canon_elements(sd)
                cc.add(f"chk (zset_dimensions D {tp} {d}) (EOk {core.coq_obs(sh, els)})", {"kind": "set_dimensions", "poly": desc, "d": d})
                if len(sd.names) != d and d != D:
                    note("set_dimensions", f"set_dimensions({desc}, {d}) has names {sd.names}", {"poly": lay, "d": d})
                for i in range(size):
                    want = {tuple(sorted((v, e) for v, e in zip(lay["names"], m) if e)): c
                            for m, c in elem_terms(lay, i).items() if not any(m[d:])}
                    if dict(els[i]) != want:
                        note("set_dimensions", f"set_dimensions({desc}, {d}) element {i} = {els[i]}, expected {want}",
                             {"poly": lay, "d": d, "impl": str(els[i])})
                        break
            except Exception as exc:  # noqa: BLE001
                note("set_dimensions-raise", f"set_dimensions({desc}, {d}) raised {type(exc).__name__}: {exc}", {"poly": lay, "d": d})
        # --- sortable_proxy, argmax/argmin/amax/amin (no axis) ------------------------------------
        axis_checks = []
        if size >= 1:
            try:
                with numpoly.global_options(sort_graded=g, sort_reverse=r):
                    proxy = numpy.asarray(numpoly.sortable_proxy(p, graded=g, reverse=r)).ravel().tolist()
                    am, an = int(numpoly.argmax(p)), int(numpoly.argmin(p))
                    vmax, vmin = numpoly.amax(p), numpoly.amin(p)
            except Exception as exc:  # noqa: BLE001
                note("proxy-raise", f"sortable_proxy/argmax/amax on {desc} raised {type(exc).__name__}: {exc}", {"poly": lay})
                continue
            if size <= 40:
                cc.add(f"proxy_ok (zproxy_raw {gb} {rb} {tp}) (zsortable_proxy {gb} {rb} {tp}) {core.cnats(proxy)}",
                       {"kind": "sortable_proxy", "poly": desc, "graded": g, "reverse": r, "impl": proxy})
            nzero = sum(1 for i in range(size) if not elem_terms(lay, i))
            if size <= 40 and (nzero <= 1 or any(not any(r_) for r_ in lay["rows"])):
                # argmin / argmax positions, and the positions amin / amax take their element from, against the model
                # (skipped when several zero elements have no stored constant row: numpy's tie handling decides there)
                _, pe_ = core.canon_elements(p)
                _, vmax_e = core.canon_elements(vmax)
                _, vmin_e = core.canon_elements(vmin)
                cand_max = [i for i, e in enumerate(pe_) if len(vmax_e) == 1 and e == vmax_e[0]]
                cand_min = [i for i, e in enumerate(pe_) if len(vmin_e) == 1 and e == vmin_e[0]]
                cc.add(f"[&& zargmin {gb} {rb} {tp} == {an}%nat, zargmax {gb} {rb} {tp} == {am}%nat, "
                       f"zamax_pos {gb} {rb} {tp} \\in {core.cnats(cand_max)} & zamin_pos {gb} {rb} {tp} \\in {core.cnats(cand_min)}]",
                       {"kind": "argmin/argmax/amin/amax", "poly": desc, "graded": g, "reverse": r,
                        "impl": {"argmin": an, "argmax": am, "amax_is_element": cand_max, "amin_is_element": cand_min}})
            if shape and size <= 40 and (nzero <= 1 or any(not any(r_) for r_ in lay["rows"])):
                # the same four functions ALONG AN AXIS: numpy works lane by lane; the lanes (flat positions that differ
                # only in the reduced coordinate) are computed here and handed to the model as data
                ax = rng.randrange(len(shape))
                lanes = numpy.moveaxis(numpy.arange(size).reshape(shape), ax, -1).reshape(-1, shape[ax]).tolist()
                try:
                    with numpoly.global_options(sort_graded=g, sort_reverse=r):
                        an_ax = numpy.asarray(numpoly.argmin(p, axis=ax)).ravel().tolist()
                        am_ax = numpy.asarray(numpoly.argmax(p, axis=ax)).ravel().tolist()
                        vmin_ax, vmax_ax = numpoly.amin(p, axis=ax), numpoly.amax(p, axis=ax)
                except Exception as exc:  # noqa: BLE001
                    note("axis-raise", f"argmin/argmax/amin/amax(axis={ax}) on {desc} raised {type(exc).__name__}: {exc}", {"poly": lay, "axis": ax})
                else:
                    _, pe_ = core.canon_elements(p)
                    shp_min, vmin_e = core.canon_elements(vmin_ax)
                    shp_max, vmax_e = core.canon_elements(vmax_ax)
                    want_shape = [d for k_, d in enumerate(shape) if k_ != ax]
                    if list(shp_min) != want_shape or list(shp_max) != want_shape or len(an_ax) != len(lanes) or len(am_ax) != len(lanes):
                        note("axis-shape", f"amin/amax/argmin/argmax(axis={ax}) of {desc}: result shapes {shp_min}/{shp_max}, "
                                           f"{len(an_ax)}/{len(am_ax)} positions for {len(lanes)} lanes", {"poly": lay, "axis": ax})
                    else:
                        cmin = [[i for i in lane if pe_[i] == vmin_e[k_]] for k_, lane in enumerate(lanes)]
                        cmax = [[i for i in lane if pe_[i] == vmax_e[k_]] for k_, lane in enumerate(lanes)]
                        cl = core.cseq(core.cnats(lane) for lane in lanes)
                        cc.add(f"[&& zargmin_axis {gb} {rb} {tp} {cl} == {core.cnats(an_ax)}, zargmax_axis {gb} {rb} {tp} {cl} == {core.cnats(am_ax)}, "
                               f"among (zamin_axis {gb} {rb} {tp} {cl}) {core.cseq(core.cnats(c) for c in cmin)} "
                               f"& among (zamax_axis {gb} {rb} {tp} {cl}) {core.cseq(core.cnats(c) for c in cmax)}]",
                               {"kind": "argmin/argmax/amin/amax along an axis", "poly": desc, "graded": g, "reverse": r, "axis": ax,
                                "impl": {"argmin": an_ax, "argmax": am_ax, "amin_is_element": cmin, "amax_is_element": cmax}})
                        axis_checks.append((ax, lanes, an_ax, am_ax, cmin, cmax))
            if sorted(proxy) != list(range(size)):
                note("proxy", f"sortable_proxy({desc}) = {proxy} is not a permutation of 0..{size-1}", {"poly": lay})
                continue
            keys = []
            for i in range(size):
                t = elem_terms(lay, i)
                if t:
                    top = max(t, key=lambda m: okey(g, r, m))
                    keys.append((okey(g, r, top), t[top]))
                else:
                    keys.append((okey(g, r, (0,) * D), 0))
            for i in range(size):
                for j in range(size):
                    if keys[i] < keys[j] and not proxy[i] < proxy[j]:
                        note("proxy", f"sortable_proxy({desc}) = {proxy} does not order elements {i},{j} by leading term "
                                      f"{keys[i]} < {keys[j]}", {"poly": lay, "graded": g, "reverse": r, "proxy": proxy})
                        break
                else:
                    continue
                break
            if keys[am] != max(keys) or keys[an] != min(keys):
                note("argext", f"argmax/argmin of {desc} = {am}/{an} is not extreme for the leading-term order", {"poly": lay})
            for ax, lanes, an_ax, am_ax, cmin, cmax in axis_checks:
                for k_, lane in enumerate(lanes):
                    lk = [keys[i] for i in lane]
                    if an_ax[k_] != lk.index(min(lk)) or am_ax[k_] != lk.index(max(lk)):
                        note("argext-axis", f"argmin/argmax(axis={ax}) of {desc}: lane {lane} gives {an_ax[k_]}/{am_ax[k_]}, the first extreme "
                                            f"places for the leading-term order are {lk.index(min(lk))}/{lk.index(max(lk))}", {"poly": lay, "axis": ax})
                        break
                    if not any(keys[i] == min(lk) for i in cmin[k_]) or not any(keys[i] == max(lk) for i in cmax[k_]):
                        note("aext-axis", f"amin/amax(axis={ax}) of {desc}: the element returned for lane {lane} is not an extreme element of it",
                             {"poly": lay, "axis": ax})
                        break
            for val, idx, nm in ((vmax, am, "amax"), (vmin, an, "amin")):
                _, ve = core.canon_elements(val)
                _, pe = core.canon_elements(p)
                want = [e for e, kk in zip(pe, keys) if kk == keys[idx]]
                if len(ve) != 1 or ve[0] not in want:
                    note("aext", f"{nm}({desc}) = {val} is not an element that is extreme for the leading-term order", {"poly": lay})
        report.sample({"poly": desc, "lead_exponent": le[:3], "lead_coefficient": lc[:3], "isconstant": isc}, cap=5)

    # ---- tiny (but non-zero) coefficients on non-constant terms: still not a constant ------------------------
    q0, q1 = numpoly.variable(2)
    for k in range(20 if tier == "quick" else 200):
        tiny = rng.choice([2.0 ** -30, -2.0 ** -40, 1e-12, 2.0 ** -60])
        p = rng.choice([tiny * q0 * q1 + q0 + 3, tiny * q1 + 2.0, numpoly.polynomial([1.0, tiny * q0 ** 2]), tiny * q0 + 0 * q1])
        n_eval += 1
        if bool(numpoly.isconstant(p)):
            note("isconstant", f"isconstant({p}) = True although a non-constant term has the non-zero coefficient {tiny!r}", {"poly": str(p)})
        try:
            v = p.tonumpy()
            note("tonumpy", f"tonumpy of the non-constant {p} returned {numpy.asarray(v).tolist()}", {"poly": str(p)})
        except numpoly.FeatureNotSupported:
            pass
        le = numpy.asarray(numpoly.lead_coefficient(numpoly.polynomial(tiny * q0 * q1 + q0 + 3)))
        if float(le) != tiny:
            note("lead", f"lead_coefficient of {tiny!r}*q0*q1+q0+3 is {float(le)!r}", {"tiny": tiny})
    failed, errors = cc.run()
    report.coverage.update({
        "evaluations": n_eval, "distinct_nontrivial": len(nontrivial),
        "rule": "random polynomial arrays (0-2 dims, 1-3 names, 0-5 terms, zero elements, raw storage with redundant "
                "terms, constants) x graded/reverse flags x target dimensions 1..5; non-trivial = element with >= 2 terms "
                "whose leading term is queried; distinct by (array, element, flags)",
        "coq_cases": len(cc.cases), "traces_validated_against_impl": len(cc.cases),
    })
    kinds = {}
    known_hit = set()
    for kind, what, rep in viol:
        kf = report.match_known(kind)
        if kf:
            if kind not in known_hit:
                known_hit.add(kind)
                report.known_finding(kf["id"], kf["what"] + " — e.g. " + what[:160])
            continue
        if kind in kinds:
            continue
        kinds[kind] = 1
        report.violation("C19: " + what, {"kind": kind, **rep})
    if not report.violations:
        for k, path, log in errors:
            report.violation(f"correspondence shard did not evaluate: {log[-300:]}", {"kind": "shard-error", "log": log}, found_input=False)
        for idx in failed[:3]:
            term, meta = cc.cases[idx]
            report.violation(f"model and implementation disagree on {meta}", {"kind": "correspondence", "term": term[:800], **meta})
        if not ok and not report.violations:
            report.violation("C19: bridge/proof obligation no longer checks: "
                             + str(report.coverage.get("broken_obligation", {}).get("where") or report.notes[-1:] or report.coverage.get("source_facts")),
                             {"kind": "broken-proof", "notes": report.notes[-3:], "source_facts": report.coverage.get("source_facts"),
                              **report.coverage.get("broken_obligation", {})}, found_input=False)
    report.coverage["trusted_base"] = ["Coq 8.16.1 kernel + VM", "MathComp / SsrMultinomials", "translator query_tr.py (statement-by-statement comparison of 7 functions with the statements the models were written from)",
                                       "harness oracle for the argmax/argmin/amax/amin relations"]
    report.assumptions += ["integer coefficients", "set_dimensions is exercised on names below q10, with gaps (beyond that the string order of names differs from the index order the model uses)"]


def replay(path):
    data = json.load(open(path))
    print(json.dumps(data["replay"], indent=1)[:2500])
    return 0
