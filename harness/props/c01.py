"""C01 — ring arithmetic on polynomial arrays is exact."""
from __future__ import annotations

import json
import operator

import numpy
import numpoly

from harness import core, gen

HEADER = """From Coq Require Import ZArith.
From mathcomp Require Import all_ssreflect all_algebra ssrZ.
From NP Require Import Base Poly Harness.
Delimit Scope Z_scope with CZ.
Local Notation P := ZParr.
Local Notation D := dflt_opts.
"""

TARGETS = ["Gen/GenSource.vo", "Bridge/BridgeSrcC01.vo", "Props/P_C01.vo"]

OPS = {"add": (operator.add, "EAdd"), "sub": (operator.sub, "ESub"), "mul": (operator.mul, "EMul")}
NP_SPELL = {"add": numpy.add, "sub": numpy.subtract, "mul": numpy.multiply}


# ---- expression trees ------------------------------------------------------
def rand_tree(rng, depth, leaves):
    """Tree as nested tuples; leaves index into `leaves`."""
    if depth == 0 or rng.random() < 0.25:
        return ("leaf", rng.randrange(len(leaves)))
    k = rng.random()
    if k < 0.12:
        return ("neg", rand_tree(rng, depth - 1, leaves))
    if k < 0.22:
        return ("pow", rand_tree(rng, depth - 1, leaves), rng.choice([0, 1, 2, 2, 3]))
    op = rng.choice(["add", "sub", "mul", "add", "mul"])
    return (op, rand_tree(rng, depth - 1, leaves), rand_tree(rng, depth - 1, leaves))


def eval_impl(tree, leaves, spell_numpy=False):
    t = tree[0]
    if t == "leaf":
        return leaves[tree[1]]
    if t == "neg":
        return -eval_impl(tree[1], leaves, spell_numpy)
    if t == "pow":
        return eval_impl(tree[1], leaves, spell_numpy) ** tree[2]
    a = eval_impl(tree[1], leaves, spell_numpy)
    b = eval_impl(tree[2], leaves, spell_numpy)
    if spell_numpy:
        return NP_SPELL[t](a, b)
    return OPS[t][0](a, b)


def tree_coq(tree, leaf_terms):
    t = tree[0]
    if t == "leaf":
        return f"(Leaf {leaf_terms[tree[1]]})"
    if t == "neg":
        return f"(ENeg {tree_coq(tree[1], leaf_terms)})"
    if t == "pow":
        return f"(EPow {tree_coq(tree[1], leaf_terms)} {core.cnat(tree[2])})"
    return f"({OPS[t][1]} {tree_coq(tree[1], leaf_terms)} {tree_coq(tree[2], leaf_terms)})"


def tree_str(tree):
    t = tree[0]
    if t == "leaf":
        return f"x{tree[1]}"
    if t == "neg":
        return f"-({tree_str(tree[1])})"
    if t == "pow":
        return f"({tree_str(tree[1])})**{tree[2]}"
    sym = {"add": "+", "sub": "-", "mul": "*"}[t]
    return f"({tree_str(tree[1])}{sym}{tree_str(tree[2])})"


def tree_has_poly(tree, leaves):
    """Python evaluates number-only subtrees without numpoly; require a polynomial somewhere
    on every binary node's path is not needed: results are exact integers either way, but the
    *type* of the final result must be a polynomial for the observation; plain arrays are
    observed as constants."""
    return True


def expected_term(fn):
    try:
        res = fn()
    except Exception as exc:  # noqa: BLE001
        return f"(EErr {core.err_enum(exc)})", ("err", core.err_enum(exc), repr(exc)[:200])
    try:
        shape, els = core.observe_any(res)
    except ValueError as exc:     # a coefficient that is not an integer although every operand is integer-valued
        return "(EErr OtherError)", ("garbage", str(exc), repr(res)[:300])
    return f"(EOk {core.coq_obs(shape, els)})", ("ok", shape, els)


def make_cases(rng, n, maxdepth):
    cases = []
    for k in range(n):
        r = rng.random()
        if r < 0.45:
            a, b = gen.rand_operand_pair(rng)
            leaves = [a, b]
            op = rng.choice(["add", "sub", "mul"])
            tree = (op, ("leaf", 0), ("leaf", 1))
            if rng.random() < 0.08:        # shapes that do not broadcast
                a = gen.rand_poly(rng, (2,), None)
                b = gen.rand_poly(rng, (3,), None)
                leaves = [a, b]
            elif rng.random() < 0.2:
                # the paths beside the compiled product kernel: narrow / single-precision / complex coefficient dtypes
                # (integer-valued, small enough not to wrap) and exponent sums beyond one key byte
                s1, s2 = gen.broadcast_pair(rng, 2)
                if rng.random() < 0.35:
                    # unsigned operands (polynomial, ndarray or numpy scalar) next to signed ones: the result dtype can
                    # hold the exact value, so it has to be the exact one (nothing may be negated or added in the
                    # narrow unsigned type on the way)
                    ud = rng.choice([numpy.uint8, numpy.uint16, numpy.uint32, numpy.uint64])
                    a = gen.rand_poly(rng, s1, gen.rand_names(rng, 2), nterms=rng.choice([1, 2, 3]), maxexp=2,
                                      dtype=rng.choice([numpy.int64, numpy.float64, numpy.int16]))
                    size2 = int(numpy.prod(s2)) if s2 else 1
                    uarr = numpy.array([rng.choice([0, 1, 2, 3, 200]) for _ in range(size2)], dtype=ud).reshape(s2)
                    form = rng.choice(["poly", "array", "scalar", "times"])
                    if form == "poly":
                        b = numpoly.polynomial(uarr)
                    elif form == "array":
                        b = uarr
                    elif form == "scalar":
                        b = ud(rng.choice([1, 2, 200]))
                    else:
                        b = numpoly.polynomial(uarr) * numpoly.variable(dtype=ud)
                    if rng.random() < 0.3:
                        a, b = b, a
                    leaves = [a, b]
                    tree = (rng.choice(["sub", "sub", "add", "mul"]), ("leaf", 0), ("leaf", 1))
                    cases.append((tree, leaves, rng.random() < 0.3))
                    continue
                if rng.random() < 0.6:
                    dts = [numpy.int32, numpy.int16, numpy.float32, numpy.complex64, numpy.complex128, numpy.float16]
                    d1 = rng.choice(dts)
                    d2 = d1 if rng.random() < 0.6 else rng.choice(dts)
                    a = gen.rand_poly(rng, s1, gen.rand_names(rng, 2), nterms=rng.choice([2, 3]), maxexp=2, dtype=d1)
                    b = gen.rand_poly(rng, s2, gen.rand_names(rng, 2), nterms=rng.choice([1, 2, 3]), maxexp=2, dtype=d2)
                else:
                    big = rng.choice([35, 40, 69, 130])
                    a = gen.rand_poly(rng, s1, gen.rand_names(rng, 2), nterms=rng.choice([2, 3]), maxexp=big)
                    b = gen.rand_poly(rng, s2, gen.rand_names(rng, 2), nterms=rng.choice([1, 2]), maxexp=big)
                leaves = [a, b]
                if rng.random() < 0.25:
                    leaves = [a]
                    tree = ("pow", ("leaf", 0), rng.choice([2, 3]))
                else:
                    tree = (rng.choice(["mul", "mul", "add", "sub"]), ("leaf", 0), ("leaf", 1))
        elif r < 0.55:
            a = gen.rand_poly(rng)
            leaves = [a]
            tree = rng.choice([("neg", ("leaf", 0)), ("pow", ("leaf", 0), rng.choice([0, 1, 2, 3, 4]))])
        else:
            # one broadcast family of shapes per tree so that most trees evaluate
            full = gen.rand_shape(rng, 2)
            nleaves = rng.randint(2, 4)
            leaves = []
            for _ in range(nleaves):
                kk = rng.randint(0, len(full))
                s = tuple(1 if rng.random() < 0.25 else d for d in full[len(full) - kk:])
                if rng.random() < 0.15:
                    leaves.append(gen.rand_numeric(rng, s))
                else:
                    leaves.append(gen.rand_poly(rng, s, gen.rand_names(rng, 3), nterms=rng.choice([1, 2, 3]), maxexp=2))
            if not any(isinstance(x, numpoly.ndpoly) for x in leaves):
                leaves[0] = gen.rand_poly(rng, (), (0,))
            tree = rand_tree(rng, rng.randint(2, maxdepth), leaves)
        cases.append((tree, leaves, rng.random() < 0.1))
    return cases


def leaf_for_model(x):
    return core.as_layout(x)


def has_pure_numeric_binop(tree, leaves):
    """A binary node whose both sides are plain numbers is evaluated by Python/numpy, not
    numpoly (and e.g. list+list concatenates): outside the property."""
    t = tree[0]
    if t == "leaf":
        return False, not isinstance(leaves[tree[1]], numpoly.ndpoly)
    if t in ("neg", "pow"):
        bad, num = has_pure_numeric_binop(tree[1], leaves)
        return bad or num, num      # -list / list**k are not numpoly's either
    b1, n1 = has_pure_numeric_binop(tree[1], leaves)
    b2, n2 = has_pure_numeric_binop(tree[2], leaves)
    return (b1 or b2 or (n1 and n2)), (n1 and n2)


def run(report, tier, seed):
    from harness.translators import source_tr
    ok = core.prove_tied(report, TARGETS, [source_tr])
    n = 1200 if tier == "quick" else 24000
    maxdepth = 4 if tier == "quick" else 5
    rng = core.rng_for(seed, "C01")
    cc = core.CoqCases("C01", HEADER, shard=250)
    distinct = set()
    garbage = []
    dist = {"ops": {}, "shapes": {}, "errors": 0, "numeric_operand": 0, "name_relation": {}}
    made = 0
    for tree, leaves, spell in make_cases(rng, n, maxdepth):
        bad, _ = has_pure_numeric_binop(tree, leaves)
        if bad:
            continue
        try:
            lays = [leaf_for_model(x) for x in leaves]
        except ValueError:
            continue
        exp_term, exp_py = expected_term(lambda: eval_impl(tree, leaves, spell))
        if exp_py[0] == "garbage":
            garbage.append((tree_str(tree), [gen.describe(x) for x in leaves], exp_py))
            continue
        term = f"chk_wf (eval D {tree_coq(tree, [core.coq_parr(l) for l in lays])}) {exp_term}"
        meta = {"tree": tree, "expr": tree_str(tree), "leaves": lays, "numpy_spelling": spell,
                "leaf_desc": [gen.describe(x) for x in leaves], "impl": exp_py}
        cc.add(term, meta)
        made += 1
        dist["ops"][tree[0]] = dist["ops"].get(tree[0], 0) + 1
        if exp_py[0] == "err":
            dist["errors"] += 1
        else:
            key = json.dumps([tree_str(tree), lays, exp_py[2]], sort_keys=True, default=str)
            if any(len(el) >= 2 for el in exp_py[2]):
                distinct.add(hash(key))
            sh = str(tuple(exp_py[1]))
            dist["shapes"][sh] = dist["shapes"].get(sh, 0) + 1
        if any(not isinstance(x, numpoly.ndpoly) for x in leaves):
            dist["numeric_operand"] += 1
        report.sample({"expr": tree_str(tree), "leaves": [gen.describe(x) for x in leaves],
                       "impl": str(exp_py)[:300]})
    # ---- array-valued exponents -------------------------------------------------------------
    n_arr = 150 if tier == "quick" else 2500
    arr_dist = {}
    for k in range(n_arr):
        s1, s2 = gen.broadcast_pair(rng, 3)
        if rng.random() < 0.4:          # genuinely three-dimensional results
            full = tuple(rng.choice([2, 2, 3]) for _ in range(3))
            s1 = tuple(1 if rng.random() < 0.2 else d for d in full[rng.randint(0, 2):])
            s2 = tuple(1 if rng.random() < 0.2 else d for d in full[rng.randint(0, 1):])
        x = gen.rand_poly(rng, s1, gen.rand_names(rng, 2), nterms=rng.choice([1, 2]), maxexp=2)
        size2 = int(numpy.prod(s2)) if s2 else 1
        es = [rng.choice([0, 1, 2, 2, 3]) for _ in range(size2)]
        e = numpy.array(es, dtype=int).reshape(s2)
        if rng.random() < 0.3:
            e = e.tolist()
        exp_term, exp_py = expected_term(lambda: x ** e)
        if exp_py[0] == "garbage":
            garbage.append(("x0 ** array", [gen.describe(x), str(es)], exp_py))
            continue
        lay = core.as_layout(x)
        term = f"chk_wf (zpow_arr D {core.coq_parr(lay)} {core.cnats(s2)} {core.cnats(es)}) {exp_term}"
        cc.add(term, {"tree": "pow_array", "expr": f"x0 ** array{tuple(s2)}", "leaves": [lay],
                      "leaf_desc": [gen.describe(x), f"exponents {es} shape {tuple(s2)}"], "impl": exp_py})
        made += 1
        arr_dist[len(s1), len(s2)] = arr_dist.get((len(s1), len(s2)), 0) + 1
    dist["array_exponent_ndims"] = {str(k): v for k, v in arr_dist.items()}
    failed, errors = cc.run()
    report.coverage.update({
        "evaluations": made, "distinct_nontrivial": len(distinct),
        "rule": "random expression trees (depth<=%d) over + - * neg ** on operands with broadcasting shapes, "
                "related name sets, zero/cancelling terms, numeric operands on either side; a case is "
                "non-trivial when some result element has >= 2 terms; distinct by (expression, operand layouts, result)" % maxdepth,
        "input_distribution": dist,
        "traces_validated_against_impl": made,
    })
    for k, path, log in errors:
        report.violation(f"correspondence shard {path} did not evaluate: {log[-400:]}",
                         {"kind": "shard-error", "shard": path, "log": log}, found_input=False)
    for expr, descs, gp in garbage[:5]:
        report.violation(f"C01: {expr} on integer-valued operands {descs} holds a coefficient that is not an integer "
                         f"({gp[1]}): {gp[2][:200]}", {"kind": "garbage-coefficient", "expr": expr, "leaves": descs, "impl": gp[2]})
    for idx in failed[:20]:
        term, meta = cc.cases[idx]
        meta["model"] = "(model value: evaluate `" + term.split(") (E")[0][len("chk_wf "):][:200] + "...` with vm_compute)"
        report.violation(f"C01: implementation result of {meta['expr']} differs from the exact ring value "
                         f"(model): leaves={meta['leaf_desc']}", {"kind": "correspondence", **meta})
    if not ok and not report.violations:
        report.violation("proof obligation for C01 no longer checks: "
                         + str(report.coverage.get("broken_obligation", {}).get("where")),
                         {"kind": "broken-proof", **report.coverage.get("broken_obligation", {})},
                         found_input=False)
    report.coverage["trusted_base"] = TRUSTED
    report.assumptions += ASSUME


TRUSTED = ["Coq 8.16.1 kernel + VM (vm_compute)", "MathComp 1.15 / SsrMultinomials (mpoly) / mathcomp.zify ssrZ",
           "harness: generators, canonical observation, Gallina literal encoding, coqc output parser"]
ASSUME = ["coefficients are exact integers (int64 or integer-valued float64); float rounding and int64 overflow not modelled",
          "indeterminate names of the form q<k>"]


def replay(path):
    data = json.load(open(path))
    print(json.dumps(data, indent=1)[:4000])
    return 0
