"""C10 — reductions and linear algebra equal finite sums and products of elements.

Oracle: the same numpy function applied to an object array of *formal* elements
(harness/exact.py) tells which finite sum of products of input elements numpy computes at every
result position (det: first-row Laplace expansion done in the harness); that expression is evaluated
in exact polynomial arithmetic and compared with numpoly's result.  The Coq models of
Model/Reduce.v (whose theorems are in Props/P_C10.v) are run on the same inputs.
"""
from __future__ import annotations

import json
from fractions import Fraction

import numpy
import numpoly

from harness import core, gen, exact
from harness.exact import Formal

HEADER = """From Coq Require Import ZArith.
From mathcomp Require Import all_ssreflect all_algebra ssrZ.
From NP Require Import Base Poly Harness Rearr Reduce.
Delimit Scope Z_scope with CZ.
Local Notation P := ZParr.
Local Notation D := dflt_opts.
Definition zplinear o s W (p : zparr) : res zparr := @plinear ZR o s W p.
Definition zpprod o s F (p : zparr) : res zparr := @pprod ZR o s F p.
Definition zpbilinear o sm sa sb s W (a b : zparr) : res zparr := @pbilinear ZR o sm sa sb s W a b.
Definition zpdet o bs d (p : zparr) : res zparr := @pdet ZR o bs d p.
Definition zprearr o s sg (p : zparr) : res zparr := @prearr ZR o s sg p.
"""
TARGETS = ["Gen/GenSource.vo", "Bridge/BridgeSrcC10.vo", "Props/P_C10.vo"]
SHIFT = 20


def rshape(rng, lo=1, hi=3, sizes=(1, 2, 2, 3)):
    return tuple(rng.choice(sizes) for _ in range(rng.randint(lo, hi)))


def formal_array(p, k):
    a = numpy.empty(p.shape, dtype=object)
    flat = a.reshape(-1) if p.shape else None
    if p.shape:
        for i in range(p.size):
            flat[i] = Formal.elem((k << SHIFT) + i)
    else:
        a[()] = Formal.elem(k << SHIFT)
    return a


def as_obj_array(x):
    if isinstance(x, numpy.ndarray) and x.dtype == object:
        return x
    a = numpy.empty((), dtype=object)
    a[()] = x
    return a


def wlist(form, scale=1):
    """weights of a linear Formal over operand 0 as a Coq list of (index, weight) — or None."""
    out = []
    for k, c in sorted(form.terms.items()):
        if len(k) != 1 or (k[0] >> SHIFT) != 0:
            return None
        w = c * scale
        if w.denominator != 1:
            return None
        out.append(f"({core.cnat(k[0] & ((1 << SHIFT) - 1))}, {core.cz(int(w))})")
    return core.cseq(out)


def float_elements(p):
    """per element {monomial: float} (used for mean, whose coefficients are not integral)."""
    names = [core.name_index(n) for n in p.names]
    rows = p.exponents.tolist()
    cols = [numpy.asarray(c, dtype=float).ravel().tolist() for c in p.coefficients]
    out = []
    for i in range(p.size):
        d = {}
        for r, c in zip(rows, cols):
            if c[i] != 0:
                m = tuple(sorted((v, int(e)) for v, e in zip(names, r) if e))
                d[m] = d.get(m, 0.0) + c[i]
        out.append(d)
    return out


def run(report, tier, seed):
    from harness.translators import source_tr
    ok = core.prove_tied(report, TARGETS, [source_tr])
    rng = core.rng_for(seed, "C10")
    cc = core.CoqCases("C10", HEADER, shard=150)
    viol = []
    reps = 120 if tier == "quick" else 1500
    n_eval = 0
    dist = {}
    nontrivial = set()

    def mk(shape, small=False):
        names = rng.choice([(0,), (0, 1), (1,), (2, 10), (0, 1, 2)])
        return gen.rand_poly(rng, tuple(shape), names, nterms=rng.choice([1, 2, 2, 3]) if not small else rng.choice([1, 2]),
                             maxexp=2, dtype=numpy.int64, raw=rng.random() < 0.15)

    def lookup_factory(polys):
        canon = [[exact.p_from_canon(e) for e in core.canon_elements(p)[1]] for p in polys]
        return lambda ident: canon[ident >> SHIFT][ident & ((1 << SHIFT) - 1)]

    def compare(fname, desc, polys, impl, formal, approx=False):
        """impl result vs exact evaluation of numpy's formal expression.  Returns (shape, canonical elements) or None."""
        formal = as_obj_array(formal)
        if not isinstance(impl, numpoly.ndpoly):
            impl = numpoly.polynomial(impl)
        if tuple(impl.shape) != tuple(formal.shape):
            kind = f"{fname}:shape"
            if fname == "matmul" and any(p.ndim == 1 for p in polys):
                kind = "matmul:1d-operand"
            if 0 in tuple(formal.shape):
                kind = f"{fname}:zero-size"
            viol.append((kind, f"{fname}({desc}): shape {tuple(impl.shape)}, numpy gives {tuple(formal.shape)}",
                         {"function": fname, "args": desc, "operands": [core.poly_layout(p) for p in polys]}))
            return None
        lk = lookup_factory(polys)
        want = [f.evaluate(lk) if isinstance(f, Formal) else exact.p_const(f) for f in formal.reshape(-1).tolist()] if formal.shape \
            else [formal[()].evaluate(lk) if isinstance(formal[()], Formal) else exact.p_const(formal[()])]
        if approx:
            got = float_elements(impl)
            for j, (g, w) in enumerate(zip(got, want)):
                keys = set(g) | set(w)
                if any(abs(g.get(m, 0.0) - float(w.get(m, 0))) > 1e-9 * (1 + abs(float(w.get(m, 0)))) for m in keys):
                    viol.append((f"{fname}:value", f"{fname}({desc}) on {[gen.describe(p) for p in polys]}: element {j} is {g}, "
                                 f"the exact value is {exact.p_canon(w)}", {"function": fname, "args": desc,
                                                                             "operands": [core.poly_layout(p) for p in polys]}))
                    return None
            return None
        sh, els = core.canon_elements(impl)
        for j, (g, w) in enumerate(zip(els, want)):
            w = exact.p_canon({m: (int(c) if Fraction(c).denominator == 1 else c) for m, c in w.items()})
            if g != w:
                viol.append(("matmul:1d-operand" if fname == "matmul" and any(p.ndim == 1 for p in polys) else f"{fname}:value",
                             f"{fname}({desc}) on {[gen.describe(p) for p in polys]}: element {j} is {g}, "
                             f"the exact finite sum/product is {w}", {"function": fname, "args": desc, "element": j,
                                                                      "operands": [core.poly_layout(p) for p in polys]}))
                return None
        return sh, els

    def attempt(fname, desc, polys, call_impl, call_formal, approx=False):
        nonlocal n_eval
        dist[fname] = dist.get(fname, 0) + 1
        try:
            formal = call_formal()
        except Exception as exc:  # noqa: BLE001  numpy rejects the arguments
            try:
                call_impl()
                viol.append((f"{fname}:accepts", f"{fname}({desc}) returned although numpy raises {type(exc).__name__}: {exc}", {"function": fname}))
            except Exception:  # noqa: BLE001
                pass
            return None
        try:
            impl = call_impl()
        except Exception as exc:  # noqa: BLE001
            viol.append((f"{fname}:raise:{type(exc).__name__}", f"{fname}({desc}) on {[gen.describe(p) for p in polys]} raised "
                         f"{type(exc).__name__}: {exc}", {"function": fname, "args": desc, "operands": [core.poly_layout(p) for p in polys]}))
            return None
        n_eval += 1
        res = compare(fname, desc, polys, impl, formal, approx)
        if any(len(e) > 1 for e in core.canon_elements(polys[0])[1]):
            nontrivial.add((fname, desc, tuple(tuple(p.shape) for p in polys)))
        report.sample({"function": fname, "args": desc, "operands": [gen.describe(p) for p in polys][:2]}, cap=8)
        return (res, formal, impl)

    def axis_choice(nd, allow_tuple=True):
        r = rng.random()
        if r < 0.2:
            return None
        if r < 0.4 and allow_tuple and nd >= 2:
            # axis tuples in any order, with negative entries (each axis named once)
            axes = rng.sample(range(nd), rng.randint(2, nd))
            return tuple(a - nd if rng.random() < 0.5 else a for a in axes)
        return rng.randrange(-nd, nd)

    # ---- numpy integers as axis (numpy accepts its own integer types wherever it accepts an int): every reducer, three
    #      spellings (D37)
    for fname in ("sum", "prod", "mean", "cumsum"):
        p = mk((2, 3), small=fname == "prod")
        for ax in (numpy.int64(0), numpy.int32(1), numpy.intp(-1)):
            for spelling, call in (("numpoly", lambda: getattr(numpoly, fname)(p, axis=ax)), ("numpy", lambda: getattr(numpy, fname)(p, axis=ax)),
                                   ("method", lambda: getattr(p, fname)(axis=ax))):
                try:
                    got, want = call(), getattr(numpoly, fname)(p, axis=int(ax))
                    if got.shape != want.shape or not numpy.all(numpy.asarray(got == want)):
                        viol.append((f"{fname}:value", f"{fname}(axis={type(ax).__name__}({int(ax)}), spelling={spelling}) differs from axis={int(ax)}",
                                     {"function": fname, "axis": int(ax), "operands": [core.poly_layout(p)]}))
                except Exception as exc:  # noqa: BLE001
                    viol.append((f"{fname}:raise:{type(exc).__name__}", f"{fname}(axis={type(ax).__name__}({int(ax)}), spelling={spelling}) on "
                                 f"{gen.describe(p)} raised {type(exc).__name__}: {exc}", {"function": fname, "axis": int(ax), "operands": [core.poly_layout(p)]}))
                n_eval += 1
    # ---- systematic sweep: every ordered axis tuple (each axis once, any order, negative spellings) of 3-D and 2-D
    #      arrays, keepdims on and off, through sum / mean / prod and the reduce spellings
    import itertools
    sweep_shapes = [(2, 3, 2), (2, 2, 2), (3, 2)] if tier == "quick" else [(2, 3, 2), (2, 2, 2), (3, 2), (1, 2, 3), (2, 1, 2, 2)]
    for s in sweep_shapes:
        nd = len(s)
        tuples = [t for k in range(2, nd + 1) for t in itertools.permutations(range(nd), k)]
        for fname in ("sum", "mean", "prod"):
            p = mk(s, small=fname == "prod")
            fa = formal_array(p, 0)
            for t in tuples:
                ax = tuple(a - nd if rng.random() < 0.4 else a for a in t)
                for keep in (False, True):
                    kw = {"axis": ax}
                    if keep:
                        kw["keepdims"] = True
                    ufunc = numpy.add if fname == "sum" else numpy.multiply
                    spelling = rng.choice(["numpoly", "numpy", "method"] + (["reduce"] if fname != "mean" else []))
                    ci = {"numpoly": lambda: getattr(numpoly, fname)(p, **kw), "numpy": lambda: getattr(numpy, fname)(p, **kw),
                          "method": lambda: getattr(p, fname)(**kw), "reduce": lambda: ufunc.reduce(p, **kw)}[spelling]
                    attempt(fname, f"{tuple(s)}, {kw}, spelling={spelling} [sweep]", [p], ci,
                            lambda: getattr(numpy, fname)(fa, **kw), approx=fname == "mean")

    # ---- narrow coefficient dtypes whose elements fit but whose totals do not: numpy accumulates small integers and
    #      booleans in the platform integer, and so must the polynomial reductions (the finite sum is the exact one)
    for dt, vals in ((numpy.int8, [100, 90, -100, 77, 1]), (numpy.uint8, [200, 250, 1]), (numpy.int16, [30000, -30000, 150, 151]),
                     (numpy.bool_, [True, True, False]), (numpy.int32, [2 ** 30, 2 ** 30 + 5, -(2 ** 30)])):
        for s in ([4], [2, 3], [2, 2, 2]) if tier == "quick" else ([4], [5], [2, 3], [3, 2], [2, 2, 2]):
            size = int(numpy.prod(s))
            names = rng.choice([(0,), (0, 1), (2, 10)])
            rows = [tuple(rng.choice([0, 1, 2]) for _ in names) for _ in range(2)]
            rows = list(dict.fromkeys(rows))
            cols = [numpy.array([rng.choice(vals) for _ in range(size)], dtype=dt).reshape(s) for _ in rows]
            p = numpoly.polynomial_from_attributes(rows, cols, tuple(f"q{v}" for v in names))
            fa = formal_array(p, 0)
            nd = len(s)
            for fname, kw in (("sum", {}), ("sum", {"axis": rng.randrange(-nd, nd)}), ("sum", {"axis": 0, "keepdims": True}),
                              ("cumsum", {"axis": rng.randrange(nd)}), ("cumsum", {})):
                spelling = rng.choice(["numpoly", "numpy", "method"] + (["reduce"] if fname == "sum" and "keepdims" not in kw else []))
                ci = {"numpoly": lambda: getattr(numpoly, fname)(p, **kw), "numpy": lambda: getattr(numpy, fname)(p, **kw),
                      "method": lambda: getattr(p, fname)(**kw), "reduce": lambda: numpy.add.reduce(p, **kw)}[spelling]
                ref = (lambda: numpy.add.reduce(fa, **kw)) if spelling == "reduce" else (lambda: getattr(numpy, fname)(fa, **kw))
                attempt(fname, f"{tuple(s)} {numpy.dtype(dt).name}, {kw}, spelling={spelling} [narrow]", [p], ci, ref)
            if dt is numpy.int16 and len(s) == 2:
                # entries whose pairwise products fit int16 (150 * 151 = 22650) while the row-times-column totals do not;
                # constants, so that the products of coefficients are the only products
                pm = numpoly.polynomial(numpy.array([rng.choice([150, 151, 149]) for _ in range(size)], dtype=dt).reshape(s)) \
                    * numpoly.variable(dtype=numpy.int16)
                qm = pm.T
                fpm, fqm = formal_array(pm, 0), formal_array(qm, 1)
                attempt("matmul", f"{tuple(s)} x {tuple(qm.shape)} int16 [narrow]", [pm, qm], lambda: numpoly.matmul(pm, qm),
                        lambda: numpy.matmul(fpm, fqm))

    for _ in range(reps):
        # ---- sum / cumsum / mean ---------------------------------------------------------------
        for fname in ("sum", "cumsum", "mean"):
            s = rshape(rng)
            p = mk(s)
            kw = {}
            ax = axis_choice(len(s), allow_tuple=fname != "cumsum")
            if ax is not None or rng.random() < 0.5:
                kw["axis"] = ax
            if fname != "cumsum" and rng.random() < 0.3:
                kw["keepdims"] = True
            spelling = rng.choice(["numpoly", "numpy", "method"] + (["reduce"] if fname == "sum" and not isinstance(ax, tuple) and "keepdims" not in kw else [])
                                  + (["accumulate"] if fname == "cumsum" and ax is not None else []))
            fa = formal_array(p, 0)
            if spelling == "numpoly":
                ci = lambda: getattr(numpoly, fname)(p, **kw)  # noqa: E731
            elif spelling == "numpy":
                ci = lambda: getattr(numpy, fname)(p, **kw)    # noqa: E731
            elif spelling == "method":
                ci = lambda: getattr(p, fname)(**kw)           # noqa: E731
            elif spelling == "reduce":
                ci = lambda: numpy.add.reduce(p, **({"axis": kw["axis"]} if "axis" in kw else {}))   # noqa: E731
            else:
                ci = lambda: numpy.add.accumulate(p, axis=kw["axis"])            # noqa: E731
            desc = f"{tuple(s)}, {kw}, spelling={spelling}"
            ref = (lambda: numpy.add.reduce(fa, **kw)) if spelling == "reduce" else \
                  (lambda: numpy.add.accumulate(fa, axis=kw["axis"])) if spelling == "accumulate" else \
                  (lambda: getattr(numpy, fname)(fa, **kw))
            out = attempt(fname, desc, [p], ci, ref, approx=fname == "mean")
            if out and fname != "mean" and out[0]:
                (sh, els), formal, _ = out
                ws = [wlist(f) if isinstance(f, Formal) else None for f in as_obj_array(formal).reshape(-1).tolist()]
                if all(w is not None for w in ws):
                    cc.add(f"chk_wf (zplinear D {core.cnats(sh)} {core.cseq(ws)} {core.coq_parr(core.poly_layout(p))}) (EOk {core.coq_obs(sh, els)})",
                           {"function": fname, "args": desc, "poly": gen.describe(p)})
        # ---- diff / ediff1d -----------------------------------------------------------------------
        s = list(rshape(rng, 1, 2))
        axd = rng.randrange(len(s))
        s[axd] = rng.choice([2, 3, 4])
        p = mk(tuple(s))
        kw = {"axis": axd - (len(s) if rng.random() < 0.5 else 0)}
        if rng.random() < 0.5:
            kw["n"] = rng.choice([1, 2, 3])
        extra = []
        for nm in ("prepend", "append"):
            if rng.random() < 0.25:
                es = list(s)
                es[axd] = rng.choice([1, 2])
                extra.append((nm, mk(tuple(es))))
        polys = [p] + [e for _, e in extra]
        fas = [formal_array(q, k) for k, q in enumerate(polys)]
        kwi = dict(kw, **{nm: e for nm, e in extra})
        kwf = dict(kw, **{nm: fas[k + 1] for k, (nm, _) in enumerate(extra)})
        use_np = rng.random() < 0.5
        desc = f"{tuple(s)}, {kw}, extra={[nm for nm, _ in extra]}, spelling={'numpy' if use_np else 'numpoly'}"
        out = attempt("diff", desc, polys, lambda: (numpy.diff if use_np else numpoly.diff)(p, **kwi), lambda: numpy.diff(fas[0], **kwf))
        if out and out[0] and not extra:
            (sh, els), formal, _ = out
            ws = [wlist(f) if isinstance(f, Formal) else "[::]" for f in as_obj_array(formal).reshape(-1).tolist()]
            if all(w is not None for w in ws):
                cc.add(f"chk_wf (zplinear D {core.cnats(sh)} {core.cseq(ws)} {core.coq_parr(core.poly_layout(p))}) (EOk {core.coq_obs(sh, els)})",
                       {"function": "diff", "args": desc, "poly": gen.describe(p)})
        p = mk((rng.choice([2, 3, 4]),) if rng.random() < 0.7 else (2, 2))
        kwe = {}
        for nm in ("to_end", "to_begin"):
            if rng.random() < 0.3:
                kwe[nm] = mk((rng.choice([1, 2]),))
        polys = [p] + list(kwe.values())
        fas = [formal_array(q, k) for k, q in enumerate(polys)]
        kwf = {nm: fas[k + 1] for k, nm in enumerate(kwe)}
        use_np = rng.random() < 0.5
        desc = f"{tuple(p.shape)}, extra={list(kwe)}, spelling={'numpy' if use_np else 'numpoly'}"
        out = attempt("ediff1d", desc, polys, lambda: (numpy.ediff1d if use_np else numpoly.ediff1d)(p, **kwe), lambda: numpy.ediff1d(fas[0], **kwf))
        if out and out[0] and not kwe:
            (sh, els), formal, _ = out
            ws = [wlist(f) if isinstance(f, Formal) else "[::]" for f in as_obj_array(formal).reshape(-1).tolist()]
            if all(w is not None for w in ws):
                cc.add(f"chk_wf (zplinear D {core.cnats(sh)} {core.cseq(ws)} {core.coq_parr(core.poly_layout(p))}) (EOk {core.coq_obs(sh, els)})",
                       {"function": "ediff1d", "args": desc, "poly": gen.describe(p)})
        # ---- prod ------------------------------------------------------------------------------------
        s = rshape(rng, 1, 3, sizes=(1, 2, 2, 3))
        p = mk(s, small=True)
        kw = {}
        ax = axis_choice(len(s))
        if ax is not None or rng.random() < 0.5:
            kw["axis"] = ax
        if rng.random() < 0.3:
            kw["keepdims"] = True
        spelling = rng.choice(["numpoly", "numpy", "method"] + (["reduce"] if not isinstance(ax, tuple) and "keepdims" not in kw else []))
        fa = formal_array(p, 0)
        ci = {"numpoly": lambda: numpoly.prod(p, **kw), "numpy": lambda: numpy.prod(p, **kw), "method": lambda: p.prod(**kw),
              "reduce": lambda: numpy.multiply.reduce(p, **({"axis": kw["axis"]} if "axis" in kw else {}))}[spelling]
        desc = f"{tuple(s)}, {kw}, spelling={spelling}"
        out = attempt("prod", desc, [p], ci, (lambda: numpy.multiply.reduce(fa, **kw)) if spelling == "reduce" else (lambda: numpy.prod(fa, **kw)))
        if out and out[0] and "keepdims" not in kw and not isinstance(ax, tuple):
            (sh, els), formal, _ = out
            idx = numpy.arange(p.size).reshape(p.shape)
            eff_axis = 0 if (spelling == "reduce" and "axis" not in kw) else kw.get("axis")
            if eff_axis is None:
                slices = [[int(i)] for i in idx.ravel()]
            else:
                slices = [numpy.take(idx, k, axis=eff_axis).ravel().tolist() for k in range(p.shape[eff_axis])]
            cc.add(f"chk_wf (zpprod D {core.cnats(sh)} {core.cseq(core.cnats(f) for f in slices)} {core.coq_parr(core.poly_layout(p))}) "
                   f"(EOk {core.coq_obs(sh, els)})", {"function": "prod", "args": desc, "poly": gen.describe(p)})
        # ---- inner / outer / matmul -------------------------------------------------------------------------
        which = rng.choice(["inner", "outer", "matmul", "matmul"])
        if which == "inner":
            k = rng.choice([1, 2, 3])
            sa, sb = (k,), (k,)
            if rng.random() < 0.3:
                sa = (rng.choice([1, 2]), k)
        elif which == "outer":
            sa, sb = (rng.choice([1, 2, 3]),), (rng.choice([1, 2]),)
            if rng.random() < 0.2:
                sa = (2, 2)
        else:
            m, k, n = rng.choice([1, 2, 3]), rng.choice([1, 2]), rng.choice([1, 2, 3])
            r = rng.random()
            if r < 0.5:
                sa, sb = (m, k), (k, n)
            elif r < 0.65:
                sa, sb = (k,), (k, n)
            elif r < 0.8:
                sa, sb = (m, k), (k,)
            else:
                sa, sb = (2, m, k), rng.choice([(k, n), (2, k, n), (1, k, n)])
        a, b = mk(sa, small=True), mk(sb, small=True)
        fa, fb = formal_array(a, 0), formal_array(b, 1)
        spelling = rng.choice(["numpoly", "numpy"] + (["operator"] if which == "matmul" else []))
        fn = getattr(numpy if spelling == "numpy" else numpoly, which)
        ci = (lambda: a @ b) if spelling == "operator" else (lambda: fn(a, b))
        desc = f"{sa} x {sb}, spelling={spelling}"
        out = attempt(which, desc, [a, b], ci, lambda: getattr(numpy, which)(fa, fb))
        if out and out[0]:
            (sh, els), formal, _ = out
            ia = numpy.arange(a.size).reshape(a.shape)
            ib = numpy.arange(b.size).reshape(b.shape)
            maps = None
            if which == "inner" and len(sa) == 1:
                A, B = numpy.broadcast_arrays(ia, ib)
                red = -1
            elif which == "outer":
                A, B = numpy.broadcast_arrays(ia.ravel()[:, None], ib.ravel()[None, :])
                red = None
            elif which == "matmul" and len(sa) >= 2 and len(sb) >= 2:
                A, B = numpy.broadcast_arrays(ia.reshape(ia.shape + (1,)), ib.reshape(ib.shape[:-2] + (1,) + ib.shape[-2:]))
                red = -2
            else:
                A = None
            if A is not None:
                sm = A.shape
                T = numpy.arange(A.size).reshape(sm)
                if red is None:
                    W = [[int(t)] for t in T.ravel()]
                else:
                    W = numpy.moveaxis(T, red, -1).reshape(-1, sm[red]).tolist()
                wtxt = core.cseq(core.cseq(f"({core.cnat(t)}, 1%CZ)" for t in w) for w in W)
                sg = lambda X: core.cseq(f"(Some {core.cnat(i)})" for i in X.ravel().tolist())  # noqa: E731
                cc.add(f"chk_wf (zpbilinear D {core.cnats(sm)} {sg(A)} {sg(B)} {core.cnats(sh)} {wtxt} "
                       f"{core.coq_parr(core.poly_layout(a))} {core.coq_parr(core.poly_layout(b))}) (EOk {core.coq_obs(sh, els)})",
                       {"function": which, "args": desc, "a": gen.describe(a), "b": gen.describe(b)})
        # ---- det --------------------------------------------------------------------------------------------
        d = rng.choice([1, 2, 2, 3, 3, 4])
        bs = rng.choice([(), (), (2,), (1,), (2, 1)]) if d <= 3 else ()
        p = mk(bs + (d, d), small=True)
        if d >= 4:     # keep 4x4 cheap: sparse integer-ish entries
            p = numpoly.polynomial(numpy.array([[rng.choice([0, 0, 1, -1, 2]) for _ in range(d)] for _ in range(d)])) \
                + numpoly.diag(numpoly.polynomial([numpoly.variable(2)[rng.randrange(2)] for _ in range(d)]))
        fa = formal_array(p, 0)

        def formal_det():
            out = numpy.empty(bs, dtype=object)
            flat = fa.reshape((-1, d, d))
            res = [exact.leibniz_det(flat[k].tolist()) for k in range(flat.shape[0])]
            if bs:
                out.reshape(-1)[:] = res
            else:
                out[()] = res[0]
            return out
        use_np = rng.random() < 0.5
        desc = f"{bs}+({d},{d}), spelling={'numpy.linalg' if use_np else 'numpoly'}"
        out = attempt("det", desc, [p], lambda: (numpy.linalg.det if use_np else numpoly.det)(p), formal_det)
        if out and out[0]:
            (sh, els), _, _ = out
            cc.add(f"chk_wf (zpdet D {core.cnats(bs)} {d} {core.coq_parr(core.poly_layout(p))}) (EOk {core.coq_obs(sh, els)})",
                   {"function": "det", "args": desc, "poly": gen.describe(p)})

    failed, errors = cc.run()
    report.coverage.update({
        "evaluations": n_eval, "distinct_nontrivial": len(nontrivial), "coq_cases": len(cc.cases),
        "traces_validated_against_impl": len(cc.cases), "calls_per_function": dist,
        "rule": "sum/cumsum/mean/prod x every axis, axis tuple, keepdims, numpoly/numpy/method/ufunc.reduce/accumulate spelling; "
                "diff x n, axis, prepend, append; ediff1d x to_begin/to_end; inner (vectors, matrix x vector), outer, matmul "
                "(matrix/vector/stacked/broadcast batches, @ operator); det of 1x1..4x4 and stacks; arrays of 1-3 dims with "
                "size-1 axes, 1-3 names incl. q2,q10; non-trivial = an operand element with >= 2 terms; distinct by "
                "(function, arguments, operand shapes)",
    })
    seen = set()
    for kind, what, rep in viol:
        kf = report.match_known(kind)
        if kf:
            if kind not in seen:
                seen.add(kind)
                report.known_finding(kf["id"], kf["what"] + " — e.g. " + what[:200])
            continue
        if kind in seen:
            continue
        seen.add(kind)
        report.violation("C10: " + what, {"kind": kind, **rep})
    if not report.violations:
        for k, path, log in errors:
            report.violation(f"correspondence shard did not evaluate: {log[-300:]}", {"kind": "shard-error", "log": log}, found_input=False)
        for idx in failed[:3]:
            term, meta = cc.cases[idx]
            report.violation(f"model and implementation disagree on {meta}", {"kind": "correspondence", "term": term[:1500], **meta})
        if not ok and not report.violations:
            report.violation("C10: proof obligation no longer checks: " + str(report.coverage.get("broken_obligation", {}).get("where")),
                             {"kind": "broken-proof", **report.coverage.get("broken_obligation", {})}, found_input=False)
    report.coverage["trusted_base"] = ["Coq 8.16.1 kernel + VM", "MathComp / SsrMultinomials",
                                       "numpy's own function on formal-element object arrays as the oracle of WHICH finite sum "
                                       "of products is meant; exact polynomial arithmetic of harness/exact.py"]
    report.assumptions += ["integer coefficients (mean: compared with the exact rational value to 1e-9)",
                           "numpy's reductions are generic in the element type (object arrays reveal the index structure)"]


def replay(path):
    data = json.load(open(path))
    print(json.dumps(data["replay"], indent=1)[:3000])
    return 0
