"""C09 — shape functions and indexing move whole polynomial elements like numpy.

Oracle: the very same numpy function applied to *index arrays* (operand k, element i is encoded
as the integer (k << 20) + 1 + i; 0 is numpy's fill) says where numpy places which element; the
result of numpoly must have that shape and, element by element, exactly that polynomial.  The
same index map is given to the Coq wrapper skeletons of Model/Rearr.v (for which the property is a
theorem, Props/P_C09.v) and their result is compared with the implementation's.
"""
from __future__ import annotations

import json

import numpy
import numpoly

from harness import core, gen, catalogue

HEADER = """From Coq Require Import ZArith.
From mathcomp Require Import all_ssreflect all_algebra ssrZ.
From NP Require Import Base Poly Harness Rearr.
Delimit Scope Z_scope with CZ.
Local Notation P := ZParr.
Definition zprearr o s sg (p : zparr) : res zparr := @prearr ZR o s sg p.
Definition zpjoin o s tau (ps : seq zparr) : res zparr := @pjoin ZR o s tau ps.
Definition chkn (r : res zparr) (e : expect) (ns : seq nat) : bool :=
  chk_wf r e && (if r is Ok p then names p == ns else true).
Definition chkv (r : res zparr) (e : expect) (ns : seq nat) : bool := chk_wf r e.
"""
TARGETS = ["Bridge/BridgeShape.vo", "Props/P_C09.vo"]

FUNCS = ["reshape", "transpose", "moveaxis", "expand_dims", "atleast_1d", "atleast_2d", "atleast_3d", "repeat", "tile",
         "concatenate", "stack", "hstack", "vstack", "dstack", "split", "array_split", "hsplit", "vsplit", "dsplit",
         "diag", "diagonal", "broadcast_arrays", "where", "choose", "full", "full_like"]
SHIFT = 20


def opts_coq(o):
    return "(Opts %s %s true false)" % (core.cbool(o["retain_coefficients"]), core.cbool(o["retain_names"]))


class Operands:
    """Replaces polynomial operands by index arrays, remembering them in order of appearance."""

    def __init__(self):
        self.polys = []

    def conv(self, x):
        if isinstance(x, numpoly.ndpoly):
            k = len(self.polys)
            self.polys.append(x)
            return (numpy.arange(x.size, dtype=numpy.int64).reshape(x.shape) + 1 + (k << SHIFT))
        if isinstance(x, (list, tuple)) and any(isinstance(y, numpoly.ndpoly) for y in x):
            return type(x)(self.conv(y) for y in x)
        return x


def parts_of(out):
    if isinstance(out, (list, tuple)):
        return list(out)
    return [out]


def extra_ops(rng, mk):
    """Indexing, iteration, ravel/flatten/.T as pseudo-functions (name, poly -> result, idx -> result)."""
    s = catalogue._shape(rng, 1, 3)
    p = mk(s)
    if len(s) >= 2 and rng.random() < 0.4:
        # a view that is not C-contiguous (transposed / axes swapped): indexing must follow the strides
        ax = list(range(len(s)))
        rng.shuffle(ax)
        view = rng.choice(["T", "transpose", "swapaxes"])
        pre = {"T": (lambda a: a.T), "transpose": (lambda a: a.transpose(*ax)), "swapaxes": (lambda a: a.swapaxes(0, -1))}[view]
        name, q, f, desc = extra_ops_on(rng, pre(p))
        return name + ":view", p, (lambda a: f(pre(a))), f"{view}{tuple(ax) if view == 'transpose' else ''} then {desc}"
    return extra_ops_on(rng, p)


def extra_ops_on(rng, p):
    s = tuple(p.shape)
    kind = rng.choice(["basic", "basic", "advanced", "bool", "iter", "ravel", "flatten", "T", "newaxis"])
    if kind == "basic":
        ix = []
        for d in s[: rng.randint(1, len(s))]:
            r = rng.random()
            if r < 0.35:
                ix.append(rng.randrange(-d, d))
            elif r < 0.8:
                a, b = sorted((rng.randint(0, d), rng.randint(0, d)))
                ix.append(slice(a, b if b > a else None, rng.choice([None, 1, 2, -1]) if d > 1 else None))
            else:
                ix.append(slice(None))
        if rng.random() < 0.2:
            ix.insert(rng.randint(0, len(ix)), Ellipsis)
        ix = tuple(ix) if len(ix) > 1 or rng.random() < 0.5 else ix[0]
        return f"getitem:{kind}", p, (lambda a: a[ix]), repr(ix)
    if kind == "newaxis":
        ix = (None, Ellipsis) if rng.random() < 0.5 else (Ellipsis, None)
        return f"getitem:{kind}", p, (lambda a: a[ix]), repr(ix)
    if kind == "advanced":
        k = rng.randint(1, 3)
        idx = numpy.array([rng.randrange(-s[0], s[0]) for _ in range(k)])
        if len(s) >= 2 and rng.random() < 0.5:
            idx2 = numpy.array([rng.randrange(s[1]) for _ in range(k)])
            return f"getitem:{kind}", p, (lambda a: a[idx, idx2]), f"[{idx.tolist()},{idx2.tolist()}]"
        return f"getitem:{kind}", p, (lambda a: a[idx]), f"[{idx.tolist()}]"
    if kind == "bool":
        m = numpy.array([rng.random() < 0.5 for _ in range(s[0])])
        return f"getitem:{kind}", p, (lambda a: a[m]), f"[{m.tolist()}]"
    if kind == "iter":
        return "iter", p, (lambda a: list(a)), ""
    if kind == "ravel":
        return "ravel", p, (lambda a: a.ravel()), ""
    if kind == "flatten":
        return "flatten", p, (lambda a: a.flatten()), ""
    return "T", p, (lambda a: a.T), ""


def run(report, tier, seed):
    from harness.translators import shape_tr
    tr_ok = True
    try:
        facts = shape_tr.generate(core.REPO, core.COQ)
        report.coverage["skeletons"] = {f["name"]: f["kind"] for f in facts}
    except Exception as exc:  # noqa: BLE001
        tr_ok = False
        facts = []
        report.notes.append(f"translator failed ({type(exc).__name__}: {exc}); relying on the correspondence alone")
    ok = core.prove(report, TARGETS if tr_ok else ["Proofs/RearrP.vo"])
    rng = core.rng_for(seed, "C09")
    cc = core.CoqCases("C09", HEADER, shard=250)
    viol = []
    E = catalogue.entries()
    reps = 40 if tier == "quick" else 400
    n_eval = 0
    dist = {}
    nontrivial = set()
    default_opts = {"retain_coefficients": False, "retain_names": True}

    # functions for which numpy stores the result in the COMMON dtype of the array operands (full_like, insert, copyto,
    # place ... cast the other operands to the first one's dtype by design)
    MIXED_OK = {"where", "concatenate", "stack", "hstack", "vstack", "dstack", "append", "choose", "broadcast_arrays"}
    mixed = {"on": False}

    def mk(shape, const=False, nonzero=False):
        if const or rng.random() < 0.08:
            size = int(numpy.prod(shape)) if shape else 1
            return numpoly.polynomial(numpy.array([rng.randint(-3, 3) for _ in range(size)], dtype=numpy.int64).reshape(shape))
        names = rng.choice([(0,), (0, 1), (1,), (2, 10), (0, 1, 2), (3,)])
        if len(shape) >= 2 and rng.random() < 0.25:
            # an operand that is a transposed (not C-contiguous) view of the requested shape
            q = gen.rand_poly(rng, tuple(reversed(shape)), names, nterms=rng.choice([1, 2, 3]), maxexp=2, dtype=numpy.int64,
                              raw=rng.random() < 0.2)
            return q.T
        q = gen.rand_poly(rng, tuple(shape), names, nterms=rng.choice([1, 2, 3]), maxexp=2, dtype=numpy.int64,
                          raw=rng.random() < 0.2)
        if mixed["on"] and rng.random() < 0.4:
            # operands of different coefficient dtypes whose values no other operand's dtype can hold: a result that is
            # stored in one operand's dtype instead of the common one shows up as a wrong element
            kind = rng.choice(["int8", "wide", "huge", "uint8"])
            conv = {"int8": lambda c: c.astype(numpy.int8), "wide": lambda c: c * 1000,
                    "huge": lambda c: c.astype(numpy.float64) * 2.0 ** 70, "uint8": lambda c: numpy.abs(c).astype(numpy.uint8)}[kind]
            q = numpoly.polynomial_from_attributes(q.exponents, [conv(numpy.asarray(c)) for c in q.coefficients], q.names,
                                                   retain_coefficients=True, retain_names=True)
        return q

    def judge(fname, argdesc, polys, out_impl, out_idx, o):
        """Compare the implementation's result with numpy's placement; add the Coq cases."""
        nonlocal n_eval
        pi, px = parts_of(out_impl), parts_of(out_idx)
        if len(pi) != len(px):
            viol.append((f"{fname}:count", f"{fname}({argdesc}) returned {len(pi)} arrays, numpy places {len(px)}", {"function": fname}))
            return
        canon = [core.canon_elements(p)[1] for p in polys]
        lays = [core.poly_layout(p) for p in polys]
        for part, (ri, rx) in enumerate(zip(pi, px)):
            rx = numpy.asarray(rx)
            if not isinstance(ri, numpoly.ndpoly):
                viol.append((f"{fname}:type", f"{fname}({argdesc}) returned {type(ri).__name__}, not a polynomial array", {"function": fname}))
                return
            if tuple(ri.shape) != tuple(rx.shape):
                kind = f"{fname}:shape"
                if fname == "repeat" and "axis=" not in argdesc and polys[0].ndim >= 2:
                    kind = "repeat:default-axis"
                viol.append((kind, f"{fname}({argdesc}): shape {tuple(ri.shape)}, numpy gives {tuple(rx.shape)}",
                             {"function": fname, "args": argdesc, "operands": lays}))
                return
            sh, els = core.canon_elements(ri)
            slots = []
            for code in rx.ravel().tolist():
                slots.append(None if code == 0 else (code >> SHIFT, (code & ((1 << SHIFT) - 1)) - 1))
            for j, sl in enumerate(slots):
                want = [] if sl is None else canon[sl[0]][sl[1]]
                if els[j] != want:
                    viol.append((f"{fname}:element",
                                 f"{fname}({argdesc}) on {[gen.describe(p) for p in polys]}: result element {j} is {els[j]}, "
                                 f"numpy places operand {sl} there = {want}",
                                 {"function": fname, "args": argdesc, "operands": lays, "element": j, "options": o}))
                    return
            used = sorted({sl[0] for sl in slots if sl is not None})
            # names / dtype (default options: the operand's own names; joins: union in index order)
            if o == default_opts:
                if len(polys) == 1 or (len(used) == 1 and fname in ("broadcast_arrays", "split", "array_split")):
                    k = used[0] if used else 0
                    if len(polys) == 1 or fname == "broadcast_arrays":
                        k = part if fname == "broadcast_arrays" else 0
                    if tuple(ri.names) != tuple(polys[k].names):
                        viol.append((f"{fname}:names", f"{fname}({argdesc}): names {ri.names}, operand has {polys[k].names}",
                                     {"function": fname, "args": argdesc, "operands": lays}))
                        return
                    if ri.dtype != polys[k].dtype:
                        viol.append((f"{fname}:dtype", f"{fname}({argdesc}): dtype {ri.dtype}, operand has {polys[k].dtype}",
                                     {"function": fname, "args": argdesc, "operands": lays}))
                        return
            # Coq model on the same index map
            obs = f"(EOk {core.coq_obs(sh, els)})"
            rn = core.cnats(core.name_index(x) for x in ri.names)
            chk = "chkn" if o == default_opts else "chkv"     # names are compared under the default options only:
            # with retain_names off the wrappers that re-clean drop unused names, the plain ndarray views keep them
            single = len(polys) == 1 or (fname == "broadcast_arrays") or (fname in ("full", "full_like") and len(used) <= 1)
            if single:
                k = part if fname == "broadcast_arrays" else (used[0] if used else (1 if fname == "full_like" else 0))
                sg = core.cseq("None" if sl is None else f"(Some {core.cnat(sl[1])})" for sl in slots)
                term = f"{chk} (zprearr {opts_coq(o)} {core.cnats(sh)} {sg} {core.coq_parr(lays[k])}) {obs} {rn}"
            elif all(sl is not None for sl in slots):
                tau = core.cseq(f"({core.cnat(sl[0])}, {core.cnat(sl[1])})" for sl in slots)
                term = f"{chk} (zpjoin {opts_coq(o)} {core.cnats(sh)} {tau} {core.cseq(core.coq_parr(l) for l in lays)}) {obs} {rn}"
            else:
                term = None
            if term is not None and len(term) < 60000:
                cc.add(term, {"function": fname, "args": argdesc, "operands": [gen.describe(p) for p in polys], "options": o})
            moved = [sl for sl in slots] != [(0, i) for i in range(len(slots))] or tuple(sh) != tuple(polys[0].shape)
            if moved:
                nontrivial.add((fname, argdesc, tuple(tuple(p.shape) for p in polys)))
        n_eval += 1

    for fname in FUNCS + ["extra"] * 6:
        for _ in range(reps):
            o = default_opts if rng.random() < 0.7 else {"retain_coefficients": rng.random() < 0.5, "retain_names": rng.random() < 0.5}
            ops = Operands()
            try:
                if fname == "extra":
                    label, p, f, argdesc = extra_ops(rng, mk)
                    idx = ops.conv(p)
                    call_impl = lambda: f(p)          # noqa: E731
                    call_idx = lambda: f(idx)         # noqa: E731
                else:
                    label = fname
                    mixed["on"] = fname in MIXED_OK
                    args, kw = E[fname](rng, mk)
                    mixed["on"] = False
                    iargs = tuple(ops.conv(a) for a in args)
                    ikw = {k: ops.conv(v) for k, v in kw.items()}
                    argdesc = ", ".join([("<poly%s>" % (tuple(a.shape),) if isinstance(a, numpoly.ndpoly) else
                                          ("[%d polys]" % len(a) if isinstance(a, (list, tuple)) and a and isinstance(a[0], numpoly.ndpoly)
                                           else repr(a.tolist() if isinstance(a, numpy.ndarray) else a))) for a in args]
                                        + [f"{k}={v!r}" for k, v in kw.items() if not isinstance(v, numpoly.ndpoly)])
                    fn_np, fn_npl = getattr(numpy, fname), getattr(numpoly, fname)
                    # every numpy callable registered for this numpoly function is a spelling (numpy.diagonal,
                    # numpy.linalg.diagonal, ...): each must place the elements where IT places them on plain arrays
                    registered = [k for k, v in numpoly.FUNCTION_COLLECTION.items() if v is fn_npl and callable(k)] or [fn_np]
                    use_np = rng.random() < 0.6 and fname != "full"     # numpy.full never dispatches on fill_value
                    fn_sp = rng.choice(registered) if use_np else None
                    if fn_sp is not None and fn_sp is not fn_np:
                        label = f"{fname}[{getattr(fn_sp, '__module__', '')}.{getattr(fn_sp, '__name__', fname)}]"
                    call_impl = (lambda: fn_sp(*args, **kw)) if use_np else (lambda: fn_npl(*args, **kw))
                    oracle_fn = fn_sp if use_np else fn_np
                    call_idx = lambda: oracle_fn(*iargs, **ikw)   # noqa: E731
            except Exception:  # noqa: BLE001  (generator could not build a case)
                continue
            dist[label] = dist.get(label, 0) + 1
            try:
                out_idx = call_idx()
            except Exception as exc:  # noqa: BLE001
                # numpy itself rejects the arguments: numpoly must not return something either
                try:
                    with numpoly.global_options(**o):
                        call_impl()
                    viol.append((f"{label}:accepts", f"{label}({argdesc}) returned although numpy raises {type(exc).__name__}", {"function": label}))
                except Exception:  # noqa: BLE001
                    pass
                continue
            try:
                with numpoly.global_options(**o):
                    out_impl = call_impl()
            except Exception as exc:  # noqa: BLE001
                viol.append((f"{label}:raise:{type(exc).__name__}",
                             f"{label}({argdesc}) on {[gen.describe(p) for p in ops.polys]} raised {type(exc).__name__}: {exc} "
                             f"(numpy accepts these arguments)", {"function": label, "args": argdesc,
                                                                   "operands": [core.poly_layout(p) for p in ops.polys], "options": o}))
                continue
            judge(label, argdesc, ops.polys, out_impl, out_idx, o)
            report.sample({"function": label, "args": argdesc, "operands": [gen.describe(p) for p in ops.polys][:3]}, cap=6)

    failed, errors = cc.run()
    report.coverage.update({
        "evaluations": n_eval, "distinct_nontrivial": len(nontrivial), "coq_cases": len(cc.cases),
        "traces_validated_against_impl": len(cc.cases), "calls_per_function": dist,
        "rule": "every listed function (numpy or numpoly spelling) + basic/advanced/bool indexing, iteration, ravel, flatten, .T "
                "x arguments from the operation catalogue x polynomial arrays of 0-3 dims (size-1 axes, single-row matrices, "
                "differing name/term sets for joins, 30% under non-default retain options); oracle = the same numpy function on "
                "index arrays; non-trivial = result is not the operand itself; distinct by (function, arguments, operand shapes)",
        "translator": "ok" if tr_ok else "failed",
    })
    seen = set()
    for kind, what, rep in viol:
        kf = report.match_known(kind)
        if kf:
            if kind not in seen:
                seen.add(kind)
                report.known_finding(kf["id"], kf["what"] + " — e.g. " + what[:200])
            continue
        if kind in seen:
            continue
        seen.add(kind)
        report.violation("C09: " + what, {"kind": kind, **rep})
    if not report.violations:
        for k, path, log in errors:
            report.violation(f"correspondence shard did not evaluate: {log[-300:]}", {"kind": "shard-error", "log": log}, found_input=False)
        for idx in failed[:3]:
            term, meta = cc.cases[idx]
            report.violation(f"model and implementation disagree on {meta}", {"kind": "correspondence", "term": term[:1500], **meta})
        if not ok and not report.violations:
            bad = [f for f in facts if not (f.get("same_numpy") and f.get("on_storage") and f.get("names_kept"))]
            report.violation("C09: proof obligation no longer checks: " + str(report.coverage.get("broken_obligation", {}).get("where"))
                             + (f"; functions off the skeleton: {[(f['name'], {k: f[k] for k in ('same_numpy', 'on_storage', 'names_kept')}) for f in bad]}" if bad else ""),
                             {"kind": "broken-proof", **report.coverage.get("broken_obligation", {})}, found_input=False)
    report.coverage["trusted_base"] = ["Coq 8.16.1 kernel + VM", "MathComp / SsrMultinomials",
                                       "translator shape_tr.py (skeleton classification by ast)",
                                       "numpy's own function on index arrays as the placement oracle"]
    report.assumptions += ["integer coefficients", "numpy re-arranges structured records exactly as it re-arranges integers "
                           "(its functions are generic in the element type)"]


def replay(path):
    data = json.load(open(path))
    print(json.dumps(data["replay"], indent=1)[:3000])
    return 0
