"""C04 — alignment changes representation only."""
from __future__ import annotations

import copy
import json

import numpy
import numpoly

from harness import core, gen
from harness.translators import clean_tr

HEADER = """From Coq Require Import ZArith.
From mathcomp Require Import all_ssreflect all_algebra ssrZ.
From NP Require Import Base Poly Harness.
Delimit Scope Z_scope with CZ.
Local Notation P := ZParr.
Local Notation D := dflt_opts.
"""
TARGETS = ["Bridge/BridgeClean.vo", "Gen/GenSource.vo", "Bridge/BridgeSrcC04.vo", "Props/P_C04.vo"]
FUNCS = {"align_shape": "zalign_shapes {o}", "align_indeterminants": "zalign_indets",
         "align_exponents": "zalign_expons", "align_polynomials": "zalign_polys {o}"}


def lay_coq(lay):
    return ("(LOk " + core.cnats(lay["names"]) + " " + core.cnats(lay["shape"]) + " "
            + core.cseq(core.cnats(r) for r in lay["rows"]) + " "
            + core.cseq(core.cseq(core.cz(v) for v in c) for c in lay["cols"]) + ")")


def snapshot(x):
    if isinstance(x, numpoly.ndpoly):
        return ("poly", x.shape, str(x.dtype), x.names, x.exponents.tobytes(), [numpy.asarray(c).tobytes() for c in x.coefficients])
    if isinstance(x, numpy.ndarray):
        return ("arr", x.shape, str(x.dtype), x.tobytes())
    return ("py", repr(x))


def rand_tuple(rng):
    k = rng.randint(1, 4)
    full = gen.rand_shape(rng, 3)
    ops = []
    for _ in range(k):
        kk = rng.randint(0, len(full))
        s = tuple(1 if rng.random() < 0.3 else d for d in full[len(full) - kk:])
        r = rng.random()
        if r < 0.15:
            ops.append(gen.rand_numeric(rng, s))
        else:
            dt = numpy.int64 if rng.random() < 0.6 else rng.choice([numpy.float64, numpy.int16, numpy.uint8, numpy.float32, numpy.complex64, numpy.uint64, numpy.int32])
            unsigned = numpy.dtype(dt).kind == "u"
            q = gen.rand_poly(rng, s, gen.rand_names(rng, 3), dtype=numpy.int64 if unsigned else dt)
            if dt is numpy.int64 and rng.random() < 0.15:
                # coefficients that a detour through floating point would change
                q = numpoly.polynomial_from_attributes(q.exponents, [numpy.where(c != 0, c + (2 ** 53 + 1) * numpy.sign(c), 0) for c in q.coefficients],
                                                       q.names, retain_coefficients=True, retain_names=True)
            if numpy.dtype(dt).kind == "u":
                q = numpoly.polynomial_from_attributes(q.exponents, [numpy.abs(numpy.asarray(c).astype(numpy.int64)).astype(dt) for c in q.coefficients],
                                                       q.names, retain_coefficients=True, retain_names=True)
            ops.append(q)
    if rng.random() < 0.08:           # shapes that do not broadcast
        ops.append(gen.rand_poly(rng, (2,), None, dtype=numpy.int64))
        ops.append(gen.rand_poly(rng, (3,), None, dtype=numpy.int64))
    return ops


def run(report, tier, seed):
    tr_ok, info = True, None
    try:
        info = clean_tr.generate(core.REPO, core.COQ)
    except (clean_tr.TranslatorError, SyntaxError, OSError, KeyError) as exc:
        tr_ok = False
        report.notes.append(f"translator failed: {exc}")
    from harness.translators import source_tr
    ok = tr_ok and core.prove_tied(report, TARGETS, [source_tr])
    rng = core.rng_for(seed, "C04")
    cc = core.CoqCases("C04", HEADER, shard=200)
    viol = []
    n = 500 if tier == "quick" else 10000
    nontrivial = set()
    stats = {f: 0 for f in FUNCS}
    for k in range(n):
        ops = rand_tuple(rng)
        fname = rng.choice(list(FUNCS))
        if fname != "align_shape" and fname != "align_polynomials":
            # the name/exponent aligners do not broadcast; give them what numpoly documents
            pass
        stats[fname] += 1
        before = [snapshot(x) for x in ops]
        desc = [gen.describe(x) for x in ops]
        try:
            lays_in = [core.as_layout(x) for x in ops]
        except ValueError:
            continue
        # a third of the calls under non-default retain options: alignment must not depend on them
        g_rc, g_rn = (False, True) if rng.random() < 0.67 else (rng.random() < 0.5, rng.random() < 0.5)
        model_fn = FUNCS[fname].replace("{o}", f"(Opts {core.cbool(g_rc)} {core.cbool(g_rn)} true false)")
        try:
            with numpoly.global_options(retain_coefficients=g_rc, retain_names=g_rn):
                res = getattr(numpoly, fname)(*ops)
            err = None
        except Exception as exc:  # noqa: BLE001
            res, err = None, exc
        after = [snapshot(x) for x in ops]
        rep = {"function": fname, "operands": desc, "layouts": lays_in, "retain_coefficients": g_rc, "retain_names": g_rn}
        if before != after:
            viol.append(("modified", f"{fname} modified its argument(s): {desc}", rep))
        tin = core.cseq(core.coq_parr(l) for l in lays_in)
        if err is not None:
            cc.add(f"chk_layouts ({model_fn} {tin}) [:: LErr {core.err_enum(err)}]", rep)
            continue
        if len(res) != len(ops):
            viol.append(("arity", f"{fname} returned {len(res)} results for {len(ops)} arguments", rep))
            continue
        lays = [core.poly_layout(r) for r in res]
        cc.add(f"chk_layouts ({model_fn} {tin}) {core.cseq(lay_coq(l) for l in lays)}", rep)
        # ---- the property itself, on the implementation's objects -----------------------------
        shapes = [numpy.shape(x) if not isinstance(x, numpoly.ndpoly) else x.shape for x in ops]
        common = numpy.broadcast_shapes(*shapes) if fname in ("align_shape", "align_polynomials") else None
        for j, (x, r) in enumerate(zip(ops, res)):
            xin = numpoly.aspolynomial(x)
            want = numpoly.polynomial_from_attributes(
                xin.exponents, [numpy.array(numpy.broadcast_to(c, common if fname in ("align_shape", "align_polynomials") else xin.shape))
                                for c in xin.coefficients], xin.names, retain_coefficients=True, retain_names=True)
            if core.canon_elements(r) != core.canon_elements(want):
                viol.append(("value", f"{fname}: result {j} does not equal its input (broadcast): {desc}", rep))
                break
        for j, (x, r) in enumerate(zip(ops, res)):
            if r.dtype != numpoly.aspolynomial(x).dtype:
                viol.append(("dtype", f"{fname}: result {j} has coefficient dtype {r.dtype}, its input has {numpoly.aspolynomial(x).dtype}: {desc}", rep))
                break
        if fname in ("align_shape", "align_polynomials") and any(tuple(r.shape) != tuple(common) for r in res):
            viol.append(("shape", f"{fname}: results do not share the broadcast shape {common}: {desc}", rep))
        if fname in ("align_indeterminants", "align_exponents", "align_polynomials"):
            union = sorted({core.name_index(nm) for x in ops if isinstance(x, numpoly.ndpoly) for nm in x.names} | ({0} if any(not isinstance(x, numpoly.ndpoly) for x in ops) else set()))
            used = sorted({core.name_index(nm) for x in ops if isinstance(x, numpoly.ndpoly)
                           for row, coef in zip(x.exponents.tolist(), x.coefficients) if numpy.any(coef)
                           for nm, e in zip(x.names, row) if e})
            for r in res:
                got_names = [core.name_index(nm) for nm in r.names]
                if g_rn or fname != "align_polynomials":
                    good = got_names == union
                else:
                    # retain_names=False: align_polynomials re-cleans while aligning the shapes, which is allowed to drop
                    # names no operand uses; the results must still share one tuple, in index order, with every used name
                    good = (got_names == [core.name_index(nm) for nm in res[0].names] and got_names == sorted(got_names)
                            and set(used) <= set(got_names) <= set(union))
                if not good:
                    viol.append(("names", f"{fname}: names {r.names} are not the union {union} in index order: {desc}", rep))
                    break
        if fname in ("align_exponents", "align_polynomials"):
            if any(r.exponents.tolist() != res[0].exponents.tolist() or list(r.keys) != list(res[0].keys) for r in res):
                viol.append(("rows", f"{fname}: results do not share exponent rows / storage keys: {desc}", rep))
            if len({tuple(map(tuple, x.exponents.tolist())) for x in ops if isinstance(x, numpoly.ndpoly)}) > 1:
                nontrivial.add(json.dumps([fname, lays_in], default=str))
        # idempotence
        try:
            with numpoly.global_options(retain_coefficients=g_rc, retain_names=g_rn):
                res2 = getattr(numpoly, fname)(*res)
            for a, b in zip(res, res2):
                if core.poly_layout(a) != core.poly_layout(b):
                    viol.append(("idempotent", f"{fname} applied to its own output changes it: {desc}", rep))
                    break
        except Exception as exc:  # noqa: BLE001
            viol.append(("idempotent", f"{fname} on its own output raised {type(exc).__name__}", rep))
        report.sample({"function": fname, "operands": desc, "result_names": [r.names for r in res]}, cap=5)
    failed, errors = cc.run() if tr_ok else ([], [])
    report.coverage.update({
        "evaluations": n, "distinct_nontrivial": len(nontrivial),
        "rule": "tuples of 1-4 polynomial-likes (polynomials over related name sets, numbers, arrays, lists) with "
                "broadcastable (and a few non-broadcastable) shapes through the four aligners; non-trivial = operands "
                "with different exponent sets through align_exponents/align_polynomials; distinct by (function, operand layouts)",
        "per_function": stats, "coq_cases": len(cc.cases), "translator": "ok" if tr_ok else "failed", "source_facts": info,
        "traces_validated_against_impl": len(cc.cases),
    })
    kinds = set()
    for kind, what, rep in viol:
        if kind in kinds:
            continue
        kinds.add(kind)
        report.violation("C04: " + what, {"kind": kind, **rep})
    if not viol:
        for k, path, log in errors:
            report.violation(f"correspondence shard did not evaluate: {log[-300:]}", {"kind": "shard-error", "log": log}, found_input=False)
        for idx in failed[:3]:
            term, meta = cc.cases[idx]
            report.violation(f"model and implementation disagree on {meta['function']} {meta['operands']}",
                             {"kind": "correspondence", **meta}, found_input=False)
        if not ok and not report.violations:
            report.violation("C04: bridge/proof obligation no longer checks: "
                             + str(report.coverage.get("broken_obligation", {}).get("where") or report.notes),
                             {"kind": "broken-proof", "theorem": "Bridge/BridgeClean.v", **report.coverage.get("broken_obligation", {})},
                             found_input=False)
    report.coverage["trusted_base"] = ["Coq 8.16.1 kernel + VM", "MathComp / SsrMultinomials", "translator clean_tr.py"]
    report.assumptions += ["integer coefficients; dtype promotion by align_shape is C12's subject"]


def replay(path):
    data = json.load(open(path))
    print(json.dumps(data["replay"], indent=1)[:2500])
    return 0
