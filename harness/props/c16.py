"""C16 — str/repr (and sympy export) denote exactly the polynomial.

(a) an independent tokenizer + recursive-descent evaluator (exact arithmetic, no eval, no numpoly)
    reads every element of str(p) and repr(p) back and compares with the stored polynomial;
(b) the printed monomials must be the element's non-zero terms in the selected monomial order;
(c) the lexed token streams are compared with the Coq model Model/Show.v (vm_compute in coqc), together
    with the verdict of the model's reference evaluator;
(d) to_sympy -> numpoly.polynomial round trip for 0-d int/float polynomials.
"""
from __future__ import annotations

import itertools
import json
import re
from fractions import Fraction

import numpy
import numpoly

from harness import core, gen

HEADER = """From Coq Require Import ZArith.
From mathcomp Require Import all_ssreflect all_algebra ssrZ rat.
From NP Require Import Base Poly Harness Order Show ShowP@GEN@.
Delimit Scope Z_scope with CZ.
Local Notation tP := (@TPlus _). Local Notation tM := (@TMinus _).
Local Notation tX := (@TMul _). Local Notation tW := (@TPow _).
Local Notation tN := (@TNum _). Local Notation tV := (@TName _). Local Notation tE := (@TNat _).
Local Notation dO := DOpts.
Definition QO : realDomainType := [realDomainType of rat].
Definition q (a : Z) (b : nat) : rat := (int_of_Z a)%:Q / (Posz b)%:Q.
Definition g (a b : Z) : GI := Gi a b.
Definition PR := @PR@.
Definition chkz := @chk_show ZO (ord_show ZO) PR.
Definition chkq := @chk_show QO (ord_show QO) PR.
Definition chkg := @chk_show gi_comRingType gauss_show PR.
Definition QParr (ns sh : seq nat) (rs : seq (seq nat)) (cs : seq (seq rat)) : parr QO := @Parr QO ns sh rs cs.
Definition GParr (ns sh : seq nat) (rs : seq (seq nat)) (cs : seq (seq GI)) : parr gi_comRingType := @Parr gi_comRingType ns sh rs cs.
"""
TARGETS = ["Gen/GenShow.vo", "Bridge/BridgeShow.vo", "Props/P_C16.vo"]
KNOWN_COMPLEX = "str:complex-coefficient:negative-real-part:not-first-term"

SETTINGS = list(itertools.product([False, True], repeat=3))      # (graded, reverse, inverse)
SIGNS = [("**", "*"), ("^", "*"), ("^", "·"), ("^^", "<*>"), ("**", "×")]


# ---------------------------------------------------------------------------------------------
# exact values: a coefficient is a pair (re, im) of Fractions
# ---------------------------------------------------------------------------------------------
def exact(x):
    if isinstance(x, (bool, numpy.bool_)):
        return (Fraction(int(x)), Fraction(0))
    if isinstance(x, (int, numpy.integer)):
        return (Fraction(int(x)), Fraction(0))
    if isinstance(x, (float, numpy.floating)):
        return (Fraction(float(x)), Fraction(0))
    if isinstance(x, (complex, numpy.complexfloating)):
        c = complex(x)
        return (Fraction(c.real), Fraction(c.imag))
    raise ValueError(f"unsupported coefficient {type(x)}")


def cmul(a, b):
    return (a[0] * b[0] - a[1] * b[1], a[0] * b[1] + a[1] * b[0])


def cadd(a, b):
    return (a[0] + b[0], a[1] + b[1])


def cneg(a):
    return (-a[0], -a[1])


ZERO = (Fraction(0), Fraction(0))
ONE = (Fraction(1), Fraction(0))


def stored_elements(p):
    """Per flat element (C order): list of (exponent tuple over p.names, exact coefficient) of the
    stored non-zero terms, storage order.  Read from the attributes only."""
    rows = [tuple(int(e) for e in r) for r in p.exponents.tolist()]
    cols = [numpy.asarray(c).reshape(-1) for c in p.coefficients]
    size = int(numpy.prod(p.shape)) if p.shape else 1
    out = []
    for i in range(size):
        el = []
        for r, c in zip(rows, cols):
            v = exact(c[i])
            if v != ZERO:
                el.append((r, v))
        out.append(el)
    return out


def as_dict(names, terms):
    """{monomial as sorted tuple of (name, exp>0): coefficient}, zero coefficients dropped."""
    d = {}
    for r, v in terms:
        m = tuple(sorted((nm, e) for nm, e in zip(names, r) if e))
        d[m] = cadd(d.get(m, ZERO), v)
    return {m: v for m, v in d.items() if v != ZERO}


# ---------------------------------------------------------------------------------------------
# structural stripping of numpy's array text
# ---------------------------------------------------------------------------------------------
class TextError(Exception):
    pass


def split_array(text, sep_comma):
    """Nested list of element strings from numpy.array2string output (brackets, separators,
    newlines).  A 0-d text is a single element string."""
    pos = 0
    n = len(text)

    def skip():
        nonlocal pos
        while pos < n and (text[pos] in " \n\t" or (sep_comma and text[pos] == ",")):
            pos += 1

    def item():
        nonlocal pos
        skip()
        if pos < n and text[pos] == "[":
            pos += 1
            out = []
            while True:
                skip()
                if pos >= n:
                    raise TextError("unbalanced '['")
                if text[pos] == "]":
                    pos += 1
                    return out
                out.append(item())
        start = pos
        while pos < n and text[pos] not in " \n\t[]" and not (sep_comma and text[pos] == ","):
            pos += 1
        if start == pos:
            raise TextError(f"empty element at {pos}")
        return text[start:pos]

    res = item()
    skip()
    if pos != n:
        raise TextError(f"trailing text {text[pos:pos + 20]!r}")
    return res


def nested_shape(x):
    if isinstance(x, str):
        return ()
    if not x:
        return (0,)
    shapes = {nested_shape(y) for y in x}
    if len(shapes) != 1:
        raise TextError("ragged array text")
    return (len(x),) + shapes.pop()


def flatten(x):
    if isinstance(x, str):
        return [x]
    return [z for y in x for z in flatten(y)]


def element_texts(p, kind):
    """The per-element strings of str(p) / repr(p), in C order; checks the bracket structure."""
    if kind == "str":
        text = str(p)
        body, comma = text, False
    else:
        text = repr(p)
        if not (text.startswith("polynomial(") and text.endswith(")")):
            raise TextError(f"repr without the polynomial(...) wrapper: {text[:40]!r}")
        body, comma = text[len("polynomial("):-1], True
    nest = split_array(body, comma)
    if nested_shape(nest) != tuple(p.shape):
        raise TextError(f"{kind} has bracket structure {nested_shape(nest)}, array shape is {tuple(p.shape)}")
    return flatten(nest)


# ---------------------------------------------------------------------------------------------
# independent lexer and evaluator of one element text
# ---------------------------------------------------------------------------------------------
NUM_RE = re.compile(r"(\d+\.?\d*|\.\d+)([eE][+-]?\d+)?j?")
NAME_RE = re.compile(r"[A-Za-z_][A-Za-z_0-9]*")


def lex(text, pow_s, mul_s):
    """Tokens: ('+',) ('-',) ('*',) ('^',) ('num', exact) ('name', str) ('nat', int)."""
    toks = []
    pos = 0
    ops = sorted([(pow_s, "^"), (mul_s, "*")], key=lambda x: -len(x[0]))
    while pos < len(text):
        ch = text[pos]
        hit = None
        for s, t in ops:
            if text.startswith(s, pos):
                hit = (s, t)
                break
        if hit:
            toks.append((hit[1],))
            pos += len(hit[0])
        elif ch in "+-":
            toks.append((ch,))
            pos += 1
        elif ch == "(":
            end = text.find(")", pos)
            if end < 0:
                raise TextError("unbalanced '('")
            inner = text[pos + 1:end]
            if not re.fullmatch(r"[+-]?[\d.eE+-]+[+-][\d.eE+-]*j", inner):
                raise TextError(f"parenthesised text is not a complex literal: {inner!r}")
            try:
                toks.append(("num", exact(complex(inner))))
            except (OverflowError, ValueError):
                raise TextError(f"complex literal {inner!r} is not finite") from None
            pos = end + 1
        elif ch.isdigit() or ch == ".":
            m = NUM_RE.match(text, pos)
            if not m:
                raise TextError(f"bad number at {text[pos:pos + 10]!r}")
            s = m.group(0)
            if toks and toks[-1] == ("^",):
                if not s.isdigit():
                    raise TextError(f"exponent is not a natural number: {s!r}")
                toks.append(("nat", int(s)))
            elif s.isdigit():
                toks.append(("num", (Fraction(int(s)), Fraction(0))))
            else:
                try:
                    v = Fraction(float(s.rstrip("j")))
                except (OverflowError, ValueError):
                    raise TextError(f"number literal {s!r} is not a finite double") from None
                toks.append(("num", (Fraction(0), v) if s.endswith("j") else (v, Fraction(0))))
            pos = m.end()
        else:
            m = NAME_RE.match(text, pos)
            if not m:
                raise TextError(f"unexpected character {ch!r}")
            s = m.group(0)
            if s == "True":
                toks.append(("num", ONE))
            elif s == "False":
                toks.append(("num", ZERO))
            else:
                toks.append(("name", s))
            pos = m.end()
    return toks


def parse(toks):
    """expr := term (('+'|'-') term)* ; term := ['-']* factor ('*' ['-']* factor)* ;
    factor := NUM | NAME ['^' NAT].  Returns the printed terms [(coefficient, {name: exponent})]."""
    pos = 0

    def peek():
        return toks[pos] if pos < len(toks) else None

    def factor():
        nonlocal pos
        neg = False
        while peek() == ("-",):
            neg = not neg
            pos += 1
        t = peek()
        if t is None:
            raise TextError("factor expected at the end")
        if t[0] == "num":
            pos += 1
            return (cneg(t[1]) if neg else t[1]), {}
        if t[0] == "name":
            pos += 1
            e = 1
            if peek() == ("^",):
                pos += 1
                t2 = peek()
                if t2 is None or t2[0] != "nat":
                    raise TextError("natural number expected after the exponent sign")
                e = t2[1]
                pos += 1
            return (cneg(ONE) if neg else ONE), {t[1]: e}
        raise TextError(f"factor expected, found {t}")

    def term():
        nonlocal pos
        c, mono = factor()
        while peek() == ("*",):
            pos += 1
            c2, m2 = factor()
            c = cmul(c, c2)
            for k, e in m2.items():
                mono[k] = mono.get(k, 0) + e
        return c, mono

    terms = [term()]
    while pos < len(toks):
        t = peek()
        if t == ("+",):
            pos += 1
            terms.append(term())
        elif t == ("-",):
            pos += 1
            c, m = term()
            terms.append((cneg(c), m))
        else:
            raise TextError(f"'+' or '-' expected between terms, found {t}")
    return terms


def denoted(terms):
    d = {}
    for c, mono in terms:
        m = tuple(sorted((k, e) for k, e in mono.items() if e))
        d[m] = cadd(d.get(m, ZERO), c)
    return {m: v for m, v in d.items() if v != ZERO}


def okey(g, r, m):
    return ((sum(m),) if g else ()) + (tuple(m) if r else tuple(reversed(m)))


# ---------------------------------------------------------------------------------------------
# Gallina literals
# ---------------------------------------------------------------------------------------------
def lit_for(kind):
    if kind == "z":
        return lambda v: core.cz(v[0])
    if kind == "q":
        return lambda v: f"(q {core.cz(v[0].numerator)} {core.cnat(v[0].denominator)})"
    return lambda v: f"(g {core.cz(v[0])} {core.cz(v[1])})"


def coq_kind(p, els):
    """Which Coq instance can carry the coefficients exactly (None: python-side checks only)."""
    vals = [v for el in els for _, v in el]
    if p.dtype.kind == "c":
        import math
        for c in p.coefficients:
            for v in numpy.asarray(c).reshape(-1):
                if v.real == 0 and math.copysign(1.0, v.real) < 0 and v.imag != 0:
                    return None       # "(-0-2j)": a negative zero is not a Gaussian integer
        if all(v[0].denominator == 1 and v[1].denominator == 1 and abs(v[0]) < 10**6 and abs(v[1]) < 10**6 for v in vals):
            return "g"
        return None
    if all(v[0].denominator == 1 and abs(v[0]) < 10**15 for v in vals):
        return "z"
    if all(v[0].denominator <= 16 and abs(v[0].numerator) <= 400 for v in vals):
        return "q"
    return None


def coq_toks(toks, lit, nameidx):
    out = []
    for t in toks:
        if t[0] == "+":
            out.append("tP")
        elif t[0] == "-":
            out.append("tM")
        elif t[0] == "*":
            out.append("tX")
        elif t[0] == "^":
            out.append("tW")
        elif t[0] == "num":
            out.append(f"tN {lit(t[1])}")
        elif t[0] == "name":
            out.append(f"tV {core.cnat(nameidx[t[1]])}")
        else:
            out.append(f"tE {core.cnat(t[1])}")
    return core.cseq(out)


def coq_parr(p, kind, lit):
    names = [core.name_index(nm) for nm in p.names]
    rows = [[int(e) for e in r] for r in p.exponents.tolist()]
    cols = [[lit(exact(v)) for v in numpy.asarray(c).reshape(-1)] for c in p.coefficients]
    ctor = {"z": "ZParr", "q": "QParr", "g": "GParr"}[kind]
    return (f"({ctor} {core.cnats(names)} {core.cnats(p.shape)} {core.cseq(core.cnats(r) for r in rows)} "
            f"{core.cseq(core.cseq(c) for c in cols)})")


# ---------------------------------------------------------------------------------------------
# polynomial specifications (serialisable, so that replays rebuild the exact input)
# ---------------------------------------------------------------------------------------------
def spec_of(p):
    def ser(v):
        if isinstance(v, complex):
            return [v.real, v.imag]
        return v
    return {"names": list(p.names), "shape": [int(s) for s in p.shape], "dtype": p.dtype.name,
            "rows": [[int(e) for e in r] for r in p.exponents.tolist()],
            "cols": [[ser(v) for v in numpy.asarray(c).reshape(-1).tolist()] for c in p.coefficients]}


def build(spec):
    dt = numpy.dtype(spec["dtype"])

    def de(v):
        return complex(v[0], v[1]) if isinstance(v, list) else v
    cols = [numpy.array([de(v) for v in c], dtype=dt).reshape(spec["shape"]) for c in spec["cols"]]
    with numpoly.global_options(varname_filter=r"q\d*"):
        return numpoly.polynomial_from_attributes(
            exponents=[tuple(r) for r in spec["rows"]], coefficients=cols, names=tuple(spec["names"]),
            dtype=dt, retain_coefficients=bool(spec.get("raw", True)), retain_names=bool(spec.get("raw", True)) or None)


INT_VALUES = [-7, -3, -2, -1, -1, 0, 0, 1, 1, 2, 3, 12]
DYADIC = [-2.25, -1.5, -1.0, -0.5, -0.125, 0.0, 0.25, 0.5, 1.0, 1.0, 1.5, 3.0, 6.75, -1.0]
FLOATS = [0.1, -0.1, 1e-05, -2.5e-07, 1e+20, -3.3e+21, 123456.789, 1 / 3, -1.0, 1.0, 0.0, 2.0, 5e-324, 1.7976931348623157e+308]
GAUSS = [complex(a, b) for a in (-2, -1, 0, 1, 2) for b in (-2, -1, 0, 1, 3)]
CPLX = [0.5 - 1.5j, -0.25 + 2j, 1e-05j, -1e+20 - 1j, complex(-0.0, -2.0), complex(-0.0, 1.0), 1j, -1j, 1 + 0j, -1 + 0j]


def rand_spec(rng, stream):
    """One polynomial specification of the named stream."""
    big = stream == "manyterms"
    names = sorted(rng.sample(range(13), rng.choice([1, 1, 2, 2, 3, 4]) if not big else 3))
    if stream == "pool":
        names = list(gen.rand_names(rng))
    if rng.random() < 0.25:
        rng.shuffle(names)            # the monomial order is relative to the order of the name tuple
    D = len(names)
    nd = rng.choice([0, 0, 1, 1, 2, 3])
    shape = [rng.choice([1, 2, 2, 3]) for _ in range(nd)]
    if big:
        shape = [rng.choice([1, 2])] if rng.random() < 0.5 else []
    size = int(numpy.prod(shape)) if shape else 1
    nterms = rng.choice([1, 1, 2, 3, 4, 6]) if not big else rng.randint(17, 30)
    rows = set()
    tries = 0
    while len(rows) < nterms and tries < 200:
        tries += 1
        if rng.random() < 0.15:
            rows.add((0,) * D)
        else:
            rows.add(tuple(rng.choice([0, 0, 1, 1, 2, 3, 5]) for _ in range(D)))
    rows = sorted(rows)
    rng.shuffle(rows)
    dtype, values = {
        "int": ("int64", INT_VALUES), "pool": ("int64", INT_VALUES), "manyterms": ("int64", INT_VALUES),
        "pm1": ("int64", [-1, -1, 1, 1, 0]), "floatint": ("float64", [float(v) for v in INT_VALUES]),
        "dyadic": ("float64", DYADIC), "float": ("float64", FLOATS),
        "gauss": ("complex128", GAUSS), "complex": ("complex128", CPLX + GAUSS),
        "bool": ("bool", [True, True, False]),
    }[stream]
    cols = []
    for _ in rows:
        if rng.random() < 0.08:
            cols.append([values[0] * 0 if dtype != "bool" else False] * size)
        else:
            cols.append([rng.choice(values) for _ in range(size)])
    if stream in ("int", "dyadic", "pm1") and rng.random() < 0.3:
        # negative leading term in every element: make the column of the largest row negative
        k = max(range(len(rows)), key=lambda j: (sum(rows[j]), rows[j][::-1]))
        cols[k] = [-abs(v) if v else -1 for v in cols[k]]

    def ser(v):
        return [v.real, v.imag] if isinstance(v, complex) else v
    return {"names": [f"q{k}" for k in names], "shape": shape, "dtype": dtype, "raw": rng.random() < 0.4,
            "rows": [list(r) for r in rows], "cols": [[ser(v) for v in c] for c in cols]}


# ---------------------------------------------------------------------------------------------
# the per-polynomial check
# ---------------------------------------------------------------------------------------------
def defect_complex_class(p, el, g, r, inv):
    """True iff the element has, after its first printed term, a complex coefficient with negative
    real part that is not the elided -1 (the input class of the known defect D16)."""
    if p.dtype.kind != "c":
        return False
    order = sorted(el, key=lambda t: okey(g, r, t[0]))
    if inv:
        order.reverse()
    for row, v in order[1:]:
        elided = v == (Fraction(-1), Fraction(0)) and any(row)
        if v[0] < 0 and not elided:
            return True
    return False


def explained_by_missing_plus(toks, names, el, want, g, r, inv):
    """The malformed text becomes the right one (value, term order, coefficients) when a '+' is
    written in front of every number that directly follows a complete factor: then, and only then,
    the failure is the known defect and nothing else."""
    fixed = []
    for t in toks:
        if t[0] == "num" and fixed and fixed[-1][0] in ("num", "name", "nat"):
            fixed.append(("+",))
        fixed.append(t)
    try:
        terms = parse(fixed)
    except TextError:
        return False
    if denoted(terms) != want:
        return False
    expect = sorted((row for row, _ in el), key=lambda m: okey(g, r, m))
    if inv:
        expect.reverse()
    printed = [tuple(m.get(nm, 0) for nm in names) for _, m in terms]
    return printed == expect and [c for c, _ in terms] == [dict(el)[m] for m in expect]


def check_poly(p, spec, settings, signs, viol, stats):
    """Runs (a) and (b) on str and repr under every given setting.  Returns
    {setting: (token lists of str(p) per element, verdict per element)} for the Coq comparison."""
    els = stored_elements(p)
    names = list(p.names)
    want = [as_dict(names, el) for el in els]
    if coq_kind(p, els) == "z" and all(re.fullmatch(r"q\d+", nm) for nm in names):
        # the harness's shared canonical form (integral coefficients only) must agree with the local one
        _, canon = core.canon_elements(p)
        mine = [sorted((tuple(sorted((core.name_index(k), e) for k, e in m)), int(v[0])) for m, v in w.items()) for w in want]
        if mine != canon:
            viol.append(("harness", f"core.canon_elements and c16.stored_elements disagree on {spec}", {"poly": spec}))
    out = {}
    pow_s, mul_s = signs
    for (g, r, inv) in settings:
        opts = dict(display_graded=g, display_reverse=r, display_inverse=inv,
                    display_exponent=pow_s, display_multiply=mul_s)
        rep = {"poly": spec, "options": opts}
        with numpoly.global_options(**opts):
            texts = {}
            for kind in ("str", "repr"):
                try:
                    texts[kind] = element_texts(p, kind)
                except TextError as exc:
                    viol.append(("structure", f"{kind} of the {p.dtype} array of shape {p.shape}: {exc}", rep))
                    texts[kind] = None
                except Exception as exc:  # noqa: BLE001
                    viol.append(("raise", f"{kind}() of a {p.dtype} array of shape {tuple(p.shape)} with stored terms "
                                          f"{[fmt_terms(names, el) for el in els][:3]} raised {type(exc).__name__}: {exc}", rep))
                    texts[kind] = None
            raw = str(p) if texts["str"] is not None else ""
        if texts["str"] is None or texts["repr"] is None:
            return None
        if texts["str"] != texts["repr"]:
            viol.append(("str-vs-repr", f"str and repr print different element texts: {texts['str']} / {texts['repr']}", rep))
        toks_all, verdicts = [], []
        for i, text in enumerate(texts["str"]):
            stats["elements"] += 1
            rep_i = dict(rep, element=i, text=text, whole=raw[:300])
            try:
                toks = lex(text, pow_s, mul_s)
            except TextError as exc:
                viol.append(("lex", f"element {i} prints as {text!r}: {exc}", rep_i))
                return None
            toks_all.append(toks)
            known_class = defect_complex_class(p, els[i], g, r, inv)
            try:
                terms = parse(toks)
            except TextError as exc:
                verdicts.append(False)
                kind = "malformed"
                if known_class and explained_by_missing_plus(toks, names, els[i], want[i], g, r, inv):
                    kind = KNOWN_COMPLEX
                viol.append((kind, f"str of element {i} is {text!r}, which is not an arithmetic expression ({exc}); "
                                   f"stored terms {fmt_terms(names, els[i])}", rep_i))
                continue
            ok = denoted(terms) == want[i]
            verdicts.append(ok)
            if not ok:
                viol.append(("value", f"str of element {i} is {text!r}, which denotes {fmt_dict(denoted(terms))}; "
                                      f"the stored polynomial is {fmt_dict(want[i])}", rep_i))
                continue
            # (b) printed monomials = the non-zero stored terms in the selected order
            printed = [tuple(m.get(nm, 0) for nm in names) for _, m in terms]
            if any(set(m) - set(names) for _, m in terms):
                viol.append(("names", f"element {i} prints as {text!r} with an unknown name", rep_i))
                continue
            stored = [row for row, _ in els[i]]
            expect = sorted(stored, key=lambda m: okey(g, r, m))
            if inv:
                expect.reverse()
            if not stored:
                if not (len(terms) == 1 and not any(printed[0]) and terms[0][0] == ZERO):
                    viol.append(("zero", f"the zero element {i} prints as {text!r}", rep_i))
            elif printed != expect:
                viol.append(("order", f"element {i} prints as {text!r}: monomials {printed}, expected order "
                                      f"(graded={g}, reverse={r}, inverse={inv}) {expect}", rep_i))
            elif [c for c, _ in terms] != [dict(els[i])[m] for m in expect]:
                viol.append(("coefficients", f"element {i} prints as {text!r}: coefficients do not belong to the monomials", rep_i))
            if len(stored) >= 2:
                stats["nontrivial"].add((json.dumps(spec, sort_keys=True), i, g, r, inv))
        out[(g, r, inv)] = (toks_all, verdicts)
    return out


def fmt_dict(d):
    def c(v):
        return str(v[0]) if v[1] == 0 else f"({v[0]}+{v[1]}j)"
    return "{" + ", ".join(f"{'*'.join(f'{k}^{e}' for k, e in m) or '1'}: {c(v)}" for m, v in sorted(d.items())) + "}"


def fmt_terms(names, el):
    return fmt_dict(as_dict(names, el))


def add_coq_case(cc, p, spec, res, meta):
    els = stored_elements(p)
    kind = coq_kind(p, els)
    if kind is None or res is None:
        return False
    try:
        nameidx = {nm: core.name_index(nm) for nm in p.names}
    except ValueError:
        return False
    lit = lit_for(kind)
    try:
        obs = []
        for (g, r, inv), (toks_all, verdicts) in res.items():
            if len(verdicts) != len(toks_all):
                return False
            for toks in toks_all:
                for t in toks:
                    if t[0] == "num" and kind in ("z", "q") and t[1][1] != 0:
                        return False
            tss = core.cseq(coq_toks(toks, lit, nameidx) for toks in toks_all)
            obs.append(f"(dO {core.cbool(g)} {core.cbool(r)} {core.cbool(inv)}, {tss}, {core.cseq(core.cbool(v) for v in verdicts)})")
    except KeyError:
        return False          # a printed name that is not one of p.names: reported by the python side
    cc.add(f"chk{kind} {coq_parr(p, kind, lit)} {core.cseq(obs)}", dict(meta, kind=kind, poly=spec))
    return True


def sympy_roundtrip(p, spec, viol, stats):
    try:
        s = numpoly.to_sympy(p)
        back = numpoly.polynomial(s)
    except Exception as exc:  # noqa: BLE001
        viol.append(("sympy-raise", f"to_sympy/polynomial raised {type(exc).__name__}: {exc} on {str(p)!r}", {"poly": spec}))
        return
    stats["sympy"] += 1
    a = as_dict(list(p.names), stored_elements(p)[0])
    b = as_dict(list(back.names), stored_elements(back)[0]) if back.shape == () else None
    if a != b:
        viol.append(("sympy-value", f"polynomial(to_sympy(p)) has the terms {fmt_dict(b) if b is not None else back!r}, "
                                    f"p has {fmt_dict(a)} (to_sympy(p) = {s})", {"poly": spec, "sympy": str(s)}))


def run(report, tier, seed):
    from harness.translators import show_tr
    tr_ok, info = True, None
    try:
        info = show_tr.generate(core.REPO, core.COQ)
    except (show_tr.TranslatorError, SyntaxError, OSError) as exc:
        tr_ok = False
        report.notes.append(f"translator failed on array_repr.py: {exc}")
    if tr_ok:
        ok = core.prove(report, TARGETS)
        header = HEADER.replace("@GEN@", " GenShow").replace("@PR@", "gen_plus_rule")
    else:
        # DESIGN 3.5: an unrecognised (possibly harmless) rewrite of array_repr.py: fall back on the
        # correspondence tie alone with a doubled budget; the "+" rule of the model is chosen by the
        # witness of defect D16 on the implementation
        ok = core.prove(report, ["Props/P_C16.vo"])
        q0 = numpoly.variable()
        rule = "PlusByText" if "+(" in str(q0 ** 2 + (-1 + 2j) * q0) else "PlusByValue"
        header = HEADER.replace("@GEN@", "").replace("@PR@", rule)
        report.notes.append(f"fallback: correspondence only, budget doubled, plus rule by witness = {rule}")

    try:
        import sympy  # noqa: F401
        have_sympy = True
    except Exception:  # noqa: BLE001
        have_sympy = False
        report.notes.append("sympy is not importable in /venv: to_sympy round trip skipped")

    rng = core.rng_for(seed, "C16")
    cc = core.CoqCases("C16", header, shard=60 if tier == "quick" else 120)
    viol = []
    stats = {"elements": 0, "nontrivial": set(), "sympy": 0, "polys": 0, "by_stream": {}}
    quick = tier == "quick"
    plan = [("int", 70, 2200), ("pool", 30, 700), ("pm1", 40, 1000), ("floatint", 30, 700), ("dyadic", 40, 1200),
            ("float", 30, 1000), ("gauss", 50, 1700), ("complex", 20, 700), ("bool", 20, 500), ("manyterms", 12, 300)]
    # fixed corpus, checked first (minimal witnesses head the reports): the design-time witness of D16,
    # +-1 coefficients, negative leading term, a constant, zero
    def fixed(names, dtype, rows, cols, shape=()):
        return {"names": names, "shape": list(shape), "dtype": dtype, "raw": True, "rows": rows, "cols": cols}
    corpus = [
        fixed(["q0"], "complex128", [[1], [2]], [[[-1.0, 2.0]], [[1.0, 0.0]]]),
        fixed(["q0"], "complex128", [[0], [2]], [[[-1.0, 0.0]], [[1.0, 0.0]]]),
        fixed(["q0"], "complex128", [[1], [2]], [[[0.0, -2.0]], [[0.0, 1.0]]]),
        fixed(["q0", "q1"], "int64", [[0, 0], [1, 0], [1, 2]], [[-1], [1], [-1]]),
        fixed(["q0", "q1"], "int64", [[0, 0], [1, 0], [0, 1]], [[1, 0], [-1, 0], [1, 0]], (2,)),
        fixed(["q2", "q10"], "float64", [[0, 0], [2, 1]], [[-1.0], [-0.5]]),
        fixed(["q0"], "bool", [[0], [1]], [[True], [True]]),
        fixed(["q0"], "int64", [[0]], [[0]]),
    ]
    stream_of = [(sp, "corpus") for sp in corpus]
    for stream, nq, nt in plan:
        n = (nq if quick else nt) * (1 if tr_ok else 2)
        stream_of += [(None, stream)] * n
    counters = {}
    for pre, stream in stream_of:
        k = counters.get(stream, 0)
        counters[stream] = k + 1
        spec = pre if pre is not None else rand_spec(rng, stream)
        p = build(spec)
        stats["polys"] += 1
        stats["by_stream"][stream] = stats["by_stream"].get(stream, 0) + 1
        # all eight term orders with the default signs; one order with alternative signs
        res = check_poly(p, spec, SETTINGS, SIGNS[0], viol, stats)
        add_coq_case(cc, p, spec, res, {"stream": stream})
        alt = rng.choice(SIGNS[1:])
        st = rng.choice(SETTINGS)
        res2 = check_poly(p, spec, [st], alt, viol, stats)
        if k % 4 == 0:
            add_coq_case(cc, p, spec, res2, {"stream": stream, "signs": alt})
        if have_sympy and not spec["shape"] and spec["dtype"] in ("int64", "float64"):
            sympy_roundtrip(p, spec, viol, stats)
            # ... and under alternative exponent / multiply signs and another term order (D40: to_sympy evaluates text)
            with numpoly.global_options(display_exponent=alt[0], display_multiply=alt[1], display_graded=st[0],
                                        display_reverse=st[1], display_inverse=st[2]):
                sympy_roundtrip(p, spec, viol, stats)
        if k < 2 and res is not None:
            report.sample({"stream": stream, "str": str(p)[:120], "repr": repr(p)[:120]}, cap=14)
    # sympy round trip of integer coefficients beyond 2**53 (not on the float64 grid) and of names q2/q10
    if have_sympy:
        q = numpoly.variable(11)
        for p in ((2 ** 53 + 1) * q[0] * q[1] - q[0] + 3, (2 ** 62 - 1) * q[1] ** 2 - (2 ** 60 + 1) * q[0] + 1,
                  (2 ** 53 + 1) * q[10] ** 2 - 3 * q[2] * q[10] + (2 ** 61 + 7), -(2 ** 55 + 3) * q[2] ** 3 + q[2]):
            sympy_roundtrip(p, spec_of(p), viol, stats)
            for _ in range(6 if tier == "quick" else 60):
                c = [rng.choice([1, -1]) * (2 ** rng.randint(53, 62) + rng.choice([1, 3, 5, 7])) for _ in range(3)]
                pp = c[0] * q[rng.randrange(3)] ** rng.randint(1, 3) + c[1] * q[rng.randrange(3)] * q[10] + c[2]
                sympy_roundtrip(pp, spec_of(pp), viol, stats)
    # sympy round trip of float coefficients that need all 16-17 significant digits (and of float constants)
    if have_sympy:
        q = numpoly.variable(3)
        for _ in range(400 if tier == "quick" else 4000):
            c = [rng.choice([1, -1]) * rng.random() * 10.0 ** rng.randint(-3, 4) for _ in range(3)]
            pp = rng.choice([c[0] * q[0] ** 2 * q[1] + c[1] * q[2] + c[2], c[0] * q[1] + c[1], numpoly.polynomial(c[2]),
                             c[0] * q[0] * q[2] ** 3 - c[1] * q[0]])
            sympy_roundtrip(pp, spec_of(pp), viol, stats)
    # names without a number suffix (force_number_suffix=False), python-side only
    for coefs in ([2, -1, 1], [-1, 0, 3], [1, 1, 1], [0, 0, 0]):
        with numpoly.global_options(force_number_suffix=False):
            q = numpoly.variable()
            p = coefs[0] * q ** 2 + coefs[1] * q + coefs[2]
            spec = spec_of(p)
        check_poly(p, spec, SETTINGS, SIGNS[0], viol, stats)
        stats["polys"] += 1
        if have_sympy:
            sympy_roundtrip(p, spec, viol, stats)
    with numpoly.global_options(force_number_suffix=True):
        p = 3 * numpoly.variable() - 1
        check_poly(p, spec_of(p), SETTINGS, SIGNS[0], viol, stats)
    # an empty array prints no element
    for kind, text in (("str", str(numpoly.polynomial([]))), ("repr", repr(numpoly.polynomial([])))):
        if (kind == "str" and text != "[]") or (kind == "repr" and not text.startswith("polynomial([]")):
            viol.append(("structure", f"{kind} of the empty array is {text!r}", {"poly": "polynomial([])"}))

    failed, errors = cc.run() if cc.cases else ([], [])
    report.coverage.update({
        "evaluations": stats["polys"], "element_texts_read_back": stats["elements"],
        "distinct_nontrivial": len(stats["nontrivial"]),
        "rule": "random arrays (0-d..3-d, 1-4 names out of q0..q12 or the C01 pool, 1-6 terms, 17-30 terms in the "
                "'manyterms' stream, zero columns/elements, raw storage) per stream: " + json.dumps(stats["by_stream"]) +
                "; every array under all 8 settings of display_graded/reverse/inverse (str and repr) and one alternative "
                "pair of exponent/multiply signs; non-trivial = element with >= 2 printed terms, distinct by "
                "(array, element, setting); streams: int, pm1 (coefficients +-1, negative leading terms), floatint, "
                "dyadic (rat instance in Coq), float (arbitrary doubles, python-side only), gauss (Gaussian integers, "
                "Coq instance), complex (python-side only), bool, names without suffix",
        "coq_cases": len(cc.cases), "traces_validated_against_impl": len(cc.cases),
        "sympy_roundtrips": stats["sympy"], "sympy_available": have_sympy,
        "translator": "ok" if tr_ok else "failed", "code_facts": info,
    })
    seen = {}
    known_hit = set()
    for kind, what, rep in viol:
        kf = report.match_known(kind)
        if kf:
            if kind not in known_hit:
                known_hit.add(kind)
                report.known_finding(kf["id"], kf["what"] + " — e.g. " + what[:200])
            continue
        if kind in seen:
            continue
        seen[kind] = 1
        report.violation("C16: " + what, {"kind": kind, **rep})
    if not report.violations:
        for k, path, log in errors:
            report.violation(f"correspondence shard did not evaluate: {log[-300:]}", {"kind": "shard-error", "log": log}, found_input=False)
        for idx in failed[:3]:
            term, meta = cc.cases[idx]
            report.violation(f"token stream / evaluator verdict of the Coq model and of the implementation differ on {str(meta)[:300]}",
                             {"kind": "correspondence", "term": term[:1500], **meta})
        if not ok and not report.violations:
            what = "proof obligation no longer checks: " + str(report.coverage.get("broken_obligation", {}).get("where"))
            report.violation(f"C16: {what}; no printed text disagrees with its polynomial on the sampled inputs",
                             {"kind": "broken-proof", **report.coverage.get("broken_obligation", {})}, found_input=False)
    report.coverage["trusted_base"] = [
        "Coq 8.16.1 kernel + VM", "MathComp / SsrMultinomials",
        "translator harness/translators/show_tr.py (Python ast of array_repr.py -> plus rule, elision tests, option keys)",
        "harness: lexer (Python number formatting read back with int()/float()/complex()), recursive-descent evaluator, "
        "structural parser of numpy's array brackets"]
    report.assumptions += [
        "numpy print options at their defaults (suppress=False, threshold 1000 > array sizes used)",
        "str(c) of a coefficient reads back as c (int/float/complex literals; NaN and infinities excluded)",
        "names of the form q<k> (and the suffix-less 'q' python-side); separators without white space, brackets or commas",
        "sympy round trip: sympy's eval of the text implements the grammar (recorded assumption of sympy_roundtrip)"]


def replay(path):
    data = json.load(open(path))
    rep = data["replay"]
    print(json.dumps(rep, indent=1)[:3000])
    if isinstance(rep.get("poly"), dict) and "options" in rep:
        p = build(rep["poly"])
        with numpoly.global_options(**rep["options"]):
            print("str :", str(p))
            print("repr:", repr(p))
        viol = []
        o = rep["options"]
        check_poly(p, rep["poly"], [(o["display_graded"], o["display_reverse"], o["display_inverse"])],
                   (o["display_exponent"], o["display_multiply"]), viol, {"elements": 0, "nontrivial": set()})
        for kind, what, _ in viol[:5]:
            print("re-run:", kind, "-", what)
        return 1 if viol else 0
    return 0
