"""C18 — exponent index generation and sorting are exact and platform-independent."""
from __future__ import annotations

import itertools
import json
from decimal import Decimal, getcontext
from fractions import Fraction

import numpy
import numpoly

from harness import core
from harness.translators import sort_tr

HEADER = """From mathcomp Require Import all_ssreflect.
From NP Require Import Base Order.
Definition sort_ok (g r : bool) (cols : seq (seq nat)) (impl : seq nat) : bool := glexsort g r cols == impl.
Definition index_ok nm0 nm1 (start stop : seq nat) (g r : bool) (impl : seq (seq nat)) : bool :=
  glexindex nm0 nm1 start stop g r == impl.
Definition bindex_ok nm0 nm1 (start stop : seq nat) (hG hR hI : bool) (impl : seq (seq nat)) : bool :=
  bindex nm0 nm1 start stop hG hR hI == impl.
Definition ct_ok nm (t ss : seq nat) (impl : bool) : bool := cross_truncate nm t ss == impl.
"""
TARGETS = ["Bridge/BridgeSort.vo", "Props/P_C18.vo"]
getcontext().prec = 60


def nats(xs):
    return "[:: " + "; ".join(str(int(x)) for x in xs) + "]" if len(xs) else "[::]"


def natss(xss):
    return "[:: " + "; ".join(nats(x) for x in xss) + "]" if len(xss) else "[::]"


def b(x):
    return "true" if x else "false"


NORMS = {0: "NZero", 1: "(NP 1)", 2: "(NP 2)", float("inf"): "NInf"}


# ---- independent oracle (specification of C18) ---------------------------------------------
def okey(g, r, m):
    return ((sum(m),) if g else ()) + (tuple(m) if r else tuple(reversed(m)))


def in_ball(t, bounds, norm):
    """t inside the cross-truncation ball with per-dimension bounds (exact arithmetic)."""
    if any(bd < 0 for bd in bounds):
        return False
    if any(x != 0 for x, bd in zip(t, bounds) if bd == 0):
        return False
    rest = [(x, bd) for x, bd in zip(t, bounds) if bd != 0]
    if not rest:
        return True
    if norm == 0:
        return sum(1 for x, _ in rest if x > 0) <= 1 and all(x <= bd for x, bd in rest)
    if norm == float("inf"):
        return all(x <= bd for x, bd in rest)
    if float(norm).is_integer():
        return sum(Fraction(x, bd) ** int(norm) for x, bd in rest) <= 1
    p = Decimal(str(norm))
    tot = sum(((Decimal(x) / Decimal(bd)) ** p if x else Decimal(0)) for x, bd in rest)
    eps = Decimal(10) ** -40
    if abs(tot - 1) < eps:      # mathematically on the boundary (only sums of exact roots reach it)
        return True
    return tot < 1


def spec_glexindex(start, stop, norm0, norm1, g, r):
    d = len(start)
    bound = max(stop) if stop else 0
    start = [max(s, 0) for s in start]
    out = []
    for t in itertools.product(range(max(bound, 0)), repeat=d):
        if d == 1:
            keep = start[0] <= t[0] < bound
        else:
            keep = in_ball(t, [s - 1 for s in stop], norm1) and not in_ball(t, [s - 1 for s in start], norm0)
        if keep:
            out.append(t)
    out.sort(key=lambda m: okey(g, r, m))
    return [list(t) for t in out]


def is_sorting_perm(idx, cols, g, r):
    n = len(cols)
    if sorted(idx) != list(range(n)):
        return False
    keys = [okey(g, r, cols[i]) for i in idx]
    return all(keys[k] <= keys[k + 1] for k in range(n - 1))


def run(report, tier, seed):
    tr_ok, info = True, None
    try:
        info = sort_tr.generate(core.REPO, core.COQ)
    except (sort_tr.TranslatorError, SyntaxError, OSError) as exc:
        tr_ok = False
        report.notes.append(f"translator failed: {exc}")
    ok = tr_ok and core.prove(report, TARGETS)
    rng = core.rng_for(seed, "C18")
    cc = core.CoqCases("C18", HEADER, shard=300)
    viol = []
    n_eval = 0
    nontrivial = 0

    # ---- (1) glexsort ------------------------------------------------------------------
    mats = []
    limit_small = [(1, 4), (2, 3), (2, 4), (3, 2)] if tier == "quick" else [(1, 6), (2, 4), (3, 3), (2, 5)]
    for d, n in limit_small:
        for flat in itertools.product(range(3), repeat=d * n):
            mats.append([list(flat[k * n:(k + 1) * n]) for k in range(d)])
    exhaustive_sort = len(mats)
    if tier == "quick" and len(mats) > 2500:
        mats = rng.sample(mats, 2500)
    for _ in range(150 if tier == "quick" else 1500):
        d = rng.randint(1, 4)
        n = rng.choice([5, 12, 17, 18, 25, 40, 64, 100, 400]) if rng.random() < 0.8 else rng.randint(1, 30)
        hi = rng.choice([1, 2, 3, 6])
        mats.append([[rng.randint(0, hi) for _ in range(n)] for _ in range(d)])
    for keys in mats:
        for g in (False, True):
            for r in (False, True):
                if len(keys[0]) > 30 and rng.random() < 0.5:
                    continue
                n_eval += 1
                cols = [list(c) for c in zip(*keys)]
                try:
                    idx = [int(i) for i in numpoly.glexsort(numpy.array(keys), graded=g, reverse=r)]
                except Exception as exc:  # noqa: BLE001
                    viol.append((f"glexsort raised {type(exc).__name__}", {"kind": "glexsort", "keys": keys}))
                    continue
                if len({okey(True, True, c)[0] for c in cols}) < len(cols):
                    nontrivial += 1
                if not is_sorting_perm(idx, cols, g, r):
                    viol.append((f"glexsort(keys {len(keys)}x{len(cols)}, graded={g}, reverse={r}) is not a sorting permutation",
                                 {"kind": "glexsort", "keys": keys, "graded": g, "reverse": r, "impl": idx}))
                cc.add(f"sort_ok {b(g)} {b(r)} {natss(cols)} {nats(idx)}",
                       {"kind": "glexsort", "keys": keys, "graded": g, "reverse": r, "impl": idx})
    report.sample({"glexsort": {"keys": mats[0], "impl": [int(i) for i in numpoly.glexsort(numpy.array(mats[0]))]}})

    # ---- (2) glexindex / bindex ------------------------------------------------------------
    reqs = []
    top = 4 if tier == "quick" else 6
    for dims in range(1, 5):
        for start in range(0, top + 1):
            for stop in range(0, top + 1):
                if dims == 4 and stop > 3 and tier == "quick":
                    continue
                for norm in (0, .5, .8, 1, 2, float("inf")):
                    reqs.append(([start] * dims, [stop] * dims, norm, norm))
    for _ in range(120 if tier == "quick" else 1500):      # per-dimension bounds, mixed norms
        dims = rng.randint(2, 4)
        stop = [rng.randint(0, top) for _ in range(dims)]
        start = [rng.randint(0, 3) for _ in range(dims)] if rng.random() < 0.6 else [0] * dims
        n0, n1 = rng.choice([0, .5, .8, 1, 2, float("inf")]), rng.choice([0, .5, .8, 1, 2, float("inf")])
        reqs.append((start, stop, n0, n1))
    if tier == "quick":
        reqs = rng.sample(reqs, min(700, len(reqs)))
        # requests with lattice points exactly ON the norm boundary (where a float comparison can go wrong), always run
        for dims, stop, norm in ((4, 6, 2), (3, 6, 2), (4, 5, 2), (2, 5, 2), (3, 3, 2), (4, 6, 1), (4, 4, 2), (4, 6, .5), (3, 6, .5)):
            reqs.append(([0] * dims, [stop] * dims, norm, norm))
    n_index_exh = len(reqs)
    for start, stop, n0, n1 in reqs:
        g, r = rng.random() < 0.5, rng.random() < 0.5
        n_eval += 1
        ct = n0 if n0 == n1 else (n0, n1)
        try:
            got = numpoly.glexindex(start, stop, dimensions=len(start), cross_truncation=ct, graded=g, reverse=r).tolist()
        except Exception as exc:  # noqa: BLE001
            viol.append((f"glexindex({start},{stop},ct={ct}) raised {type(exc).__name__}: {exc}",
                         {"kind": "glexindex", "start": start, "stop": stop, "ct": str(ct)}))
            continue
        want = spec_glexindex(start, stop, n0, n1, g, r)
        if len(want) > 1:
            nontrivial += 1
        if got != want:
            viol.append((f"glexindex(start={start}, stop={stop}, cross_truncation={ct}, graded={g}, reverse={r}) "
                         f"returns {got[:6]}{'...' if len(got) > 6 else ''} ({len(got)} tuples), exact answer has {len(want)}: {want[:6]}",
                         {"kind": "glexindex", "start": start, "stop": stop, "ct": str(ct), "graded": g, "reverse": r,
                          "impl": got, "spec": want}))
        if n0 in NORMS and n1 in NORMS:
            cc.add(f"index_ok {NORMS[n0]} {NORMS[n1]} {nats(start)} {nats(stop)} {b(g)} {b(r)} {natss(got)}",
                   {"kind": "glexindex", "start": start, "stop": stop, "ct": str(ct), "graded": g, "reverse": r})
            if rng.random() < 0.15:
                order = rng.choice(["G", "GR", "I", "GI", "R", "GRI", ""])
                try:
                    gb = numpoly.bindex(start, stop, dimensions=len(start), ordering=order, cross_truncation=ct).tolist()
                    cc.add(f"bindex_ok {NORMS[n0]} {NORMS[n1]} {nats(start)} {nats(stop)} {b('G' in order)} {b('R' in order)} "
                           f"{b('I' in order)} {natss(gb)}", {"kind": "bindex", "start": start, "stop": stop, "ordering": order})
                except Exception as exc:  # noqa: BLE001
                    viol.append((f"bindex raised {type(exc).__name__}", {"kind": "bindex", "start": start, "stop": stop}))
    report.sample({"glexindex": "start=0 stop=3 dims=2", "impl": numpoly.glexindex(0, 3, 2).tolist()})

    # ---- (3) cross_truncate directly -------------------------------------------------------
    for _ in range(300 if tier == "quick" else 3000):
        d = rng.randint(1, 4)
        t = [rng.randint(0, 6) for _ in range(d)]
        bounds = [rng.randint(-1, 6) for _ in range(d)]
        norm = rng.choice([0, .5, .8, 1, 2, float("inf")])
        n_eval += 1
        got = bool(numpoly.cross_truncate([t], bounds, norm)[0])
        if got != in_ball(t, bounds, norm):
            viol.append((f"cross_truncate({t}, {bounds}, {norm}) = {got}", {"kind": "cross_truncate", "t": t, "bounds": bounds, "norm": str(norm)}))
        if norm in NORMS:
            cc.add(f"ct_ok {NORMS[norm]} {nats(t)} {nats([x + 1 for x in bounds])} {b(got)}",
                   {"kind": "cross_truncate", "t": t, "bounds": bounds, "norm": str(norm)})

    # ---- (4) monomial ------------------------------------------------------------------------
    for _ in range(60 if tier == "quick" else 600):
        dims = rng.randint(1, 3)
        stop = rng.randint(1, 4)
        start = rng.randint(0, 2)
        g, r = rng.random() < 0.5, rng.random() < 0.5
        n_eval += 1
        m = numpoly.monomial(start, stop, dimensions=dims, graded=g, reverse=r)
        ix = numpoly.glexindex(start, stop, dimensions=dims, graded=g, reverse=r).tolist()
        shape, els = core.canon_elements(m)
        want = [[(tuple((v, e) for v, e in enumerate(t) if e), 1)] for t in ix]
        if shape != [len(ix)] or els != want:
            viol.append((f"monomial({start},{stop},dimensions={dims}) is not the array of single monomials",
                         {"kind": "monomial", "start": start, "stop": stop, "dims": dims}))

    # explicit indeterminate names, in orders that are not the lexicographic string order, with per-axis bounds:
    # axis k of the exponents belongs to names[k]
    for _ in range(40 if tier == "quick" else 400):
        names = rng.choice([("q2", "q10"), ("q10", "q2"), ("q1", "q0"), ("q3", "q12", "q5"), ("q0", "q1"), ("q11", "q2", "q1")])
        dims = len(names)
        stop = [rng.randint(1, 3) for _ in range(dims)] if rng.random() < 0.6 else rng.randint(1, 3)
        start = rng.randint(0, 1)
        g, r = rng.random() < 0.5, rng.random() < 0.5
        n_eval += 1
        try:
            m = numpoly.monomial(start, stop, dimensions=names, graded=g, reverse=r)
        except Exception as exc:  # noqa: BLE001
            viol.append((f"monomial({start},{stop},dimensions={names}) raised {type(exc).__name__}: {exc}",
                         {"kind": "monomial-names", "names": names, "stop": stop}))
            continue
        ix = numpoly.glexindex(start, stop, dimensions=dims, graded=g, reverse=r).tolist()
        shape, els = core.canon_elements(m)
        idxs = [core.name_index(nm) for nm in names]
        want = [[(tuple(sorted((idxs[k], e) for k, e in enumerate(t) if e)), 1)] for t in ix]
        if shape != [len(ix)] or els != want:
            viol.append((f"monomial({start},{stop},dimensions={names},graded={g},reverse={r}) is not the array whose i-th element is "
                         f"the monomial with the i-th exponent over {names}: got {els[:4]}, expected {want[:4]}",
                         {"kind": "monomial-names", "names": names, "start": start, "stop": stop}))

    failed, errors = cc.run() if tr_ok else ([], [])
    report.coverage.update({
        "evaluations": n_eval, "distinct_nontrivial": nontrivial, "exhaustive": tier == "thorough",
        "rule": "glexsort: key matrices over {0,1,2} of the listed small sizes (all of them in the thorough tier, a "
                "sample in quick) x 4 flag settings + random matrices up to 4x400 with many ties; glexindex/bindex: "
                f"scalar start/stop in 0..{top}, dims 1..4, norms {{0,.5,.8,1,2,inf}} + per-dimension bounds; "
                "cross_truncate on random tuples incl. zero/negative bounds; monomial. Non-trivial: a tie in degree "
                "(glexsort) or more than one tuple (glexindex). Oracle for norms .5/.8 is harness-side 60-digit arithmetic.",
        "small_matrices_total": exhaustive_sort, "index_requests": n_index_exh, "coq_cases": len(cc.cases),
        "translator": "ok" if tr_ok else "failed", "source_facts": info,
        "traces_validated_against_impl": len(cc.cases),
    })
    kinds = set()
    for what, rep in viol:
        if rep["kind"] in kinds:
            continue
        kinds.add(rep["kind"])
        report.violation("C18: " + what, rep)
    if not viol:
        for k, path, log in errors:
            report.violation(f"correspondence shard did not evaluate: {log[-300:]}", {"kind": "shard-error", "log": log}, found_input=False)
        for idx in failed[:3]:
            term, meta = cc.cases[idx]
            report.violation(f"model and implementation disagree on {str(meta)[:300]}", {"kind": "correspondence", **meta}, found_input=False)
        if not ok and not report.violations:
            report.violation("C18: bridge/proof obligation no longer checks: "
                             + str(report.coverage.get("broken_obligation", {}).get("where") or report.notes),
                             {"kind": "broken-proof", "theorem": "Bridge/BridgeSort.v", **report.coverage.get("broken_obligation", {})},
                             found_input=False)
    report.coverage["trusted_base"] = ["Coq 8.16.1 kernel + VM", "MathComp ssreflect (path.v sort_stable)",
                                       "translator harness/translators/sort_tr.py", "harness-side exact oracle for fractional norms"]
    report.assumptions += ["numpy.lexsort is a stable lexicographic sort with the last key primary (validated by the correspondence)",
                           "fractional cross-truncation norms (.5, .8) are decided by the harness oracle, not by a theorem"]


def replay(path):
    data = json.load(open(path))
    rep = data["replay"]
    print(json.dumps(rep, indent=1)[:2500])
    if rep.get("kind") == "glexsort":
        print("implementation now:", numpoly.glexsort(numpy.array(rep["keys"]), graded=rep.get("graded", False),
                                                      reverse=rep.get("reverse", False)).tolist())
    return 0
