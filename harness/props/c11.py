"""C11 — on constant polynomials every mirrored function behaves exactly like numpy.

Every registered function of the operation catalogue is called with constant polynomial
arguments (numpoly / numpy spelling) and with the underlying numeric arrays through numpy itself:
values, shape and (for boolean / index results) type must agree.  The numeric division functions
must refuse a non-constant divisor.  The Coq side (Props/P_C11.v) proves that the wrappers map
constant arrays to constant arrays carrying the column function's values; its models are run on the
same inputs.
"""
from __future__ import annotations

import json

import numpy
import numpoly

from harness import core, gen, catalogue

HEADER = """From Coq Require Import ZArith.
From mathcomp Require Import all_ssreflect all_algebra ssrZ.
From NP Require Import Base Poly Harness Order Compare Query Rearr Reduce Const.
Delimit Scope Z_scope with CZ.
Local Notation D := dflt_opts.
Definition K (s : seq nat) (v : seq Z) : zparr := @pconst ZR s v.
Definition zcmp code (a b : zparr) := @pcompare ZO code D a b.
"""
TARGETS = ["Gen/GenConst.vo", "Bridge/BridgeConst.vo", "Props/P_C11.vo"]

SKIP = {"array_repr", "array_str", "savetxt", "copyto", "ones", "zeros", "apply_along_axis", "apply_over_axes",
        "common_type", "result_type", "full"}   # text / IO / explicit destination / no polynomial operand to make constant


LOOSE_FLOAT = {"det"}       # numpy: LU factorisation; numpoly: cofactor expansion


def same(got, exp, path="result", atol=0.0, exact=False):
    """None if equal, else a description.  atol: absolute slack for float results whose numpy implementation rounds
    differently from an exact evaluation (LU determinant, summation order under cancellation)."""
    if isinstance(exp, (tuple, list)):
        if not isinstance(got, (tuple, list)) or len(got) != len(exp):
            return f"{path}: {type(got).__name__} of length {len(got) if hasattr(got, '__len__') else '?'}, numpy gives {type(exp).__name__} of length {len(exp)}"
        for k, (g, e) in enumerate(zip(got, exp)):
            d = same(g, e, f"{path}[{k}]", atol, exact)
            if d:
                return d
        return None
    e = numpy.asarray(exp)
    if isinstance(got, numpoly.ndpoly):
        if not got.isconstant():
            return f"{path}: not a constant polynomial: {got}"
        g = numpy.asarray(got.tonumpy())
        if e.dtype.kind in "bui" and e.dtype.kind == "b":
            return f"{path}: numpy returns booleans, numpoly a polynomial array {got}"
    else:
        g = numpy.asarray(got)
        if g.dtype.kind != e.dtype.kind and not (g.dtype.kind in "iu" and e.dtype.kind in "iu"):
            return f"{path}: dtype kind {g.dtype} vs numpy's {e.dtype}"
    if g.shape != e.shape:
        return f"{path}: shape {g.shape}, numpy gives {e.shape}"
    if e.dtype.kind in "fc" and exact:
        okv = numpy.array_equal(g.astype(e.dtype), e, equal_nan=True)
    elif e.dtype.kind in "fc":
        okv = numpy.allclose(g.astype(e.dtype), e, rtol=1e-12, atol=atol, equal_nan=True)
    else:
        okv = numpy.array_equal(g, e)
    if not okv:
        return f"{path}: values {g.tolist()}, numpy gives {e.tolist()}"
    return None


def show_arg(a):
    if callable(a):
        return a.__name__
    if isinstance(a, (list, tuple)) and any(isinstance(x, numpy.ndarray) for x in a):
        return "[" + ", ".join(show_arg(x) for x in a) + "]"
    return repr(numpy.asarray(a).tolist())


def flat_values(a):
    """All scalar entries of an argument (arrays, or lists of arrays of different shapes)."""
    if callable(a):
        return []
    if isinstance(a, (list, tuple)) and any(isinstance(x, numpy.ndarray) for x in a):
        return [v for x in a for v in flat_values(x)]
    try:
        return numpy.asarray(a).ravel().tolist()
    except ValueError:
        return []


def run(report, tier, seed):
    from harness.translators import const_tr
    tr_ok = True
    try:
        report.coverage["division_guards"] = const_tr.generate(core.REPO, core.COQ)
    except Exception as exc:  # noqa: BLE001
        tr_ok = False
        report.notes.append(f"translator failed ({type(exc).__name__}: {exc})")
    ok = core.prove(report, TARGETS if tr_ok else ["Proofs/ConstP.vo"])
    rng = core.rng_for(seed, "C11")
    cc = core.CoqCases("C11", HEADER, shard=300)
    viol = []
    E = catalogue.entries()
    reps = 40 if tier == "quick" else 400
    n_eval = 0
    dist = {}
    nontrivial = set()
    raw = {}
    accepted = []

    def mk(shape, const=True, nonzero=False):
        size = int(numpy.prod(shape)) if shape else 1
        kind = rng.choice(["int", "int", "float", "half"])
        pool = [-3, -2, -1, 0, 0, 1, 1, 2, 3]
        if nonzero:
            pool = [-3, -2, -1, 1, 2, 3]
        vals = [rng.choice(pool) for _ in range(size)]
        if kind == "int":
            arr = numpy.array(vals, dtype=numpy.int64).reshape(shape)
        elif kind == "float":
            arr = numpy.array(vals, dtype=float).reshape(shape)
        else:
            arr = (numpy.array(vals, dtype=float) + (0.0 if nonzero else rng.choice([0.0, 0.5, 0.25]))).reshape(shape)
        p = numpoly.polynomial(arr)
        raw[id(p)] = arr
        return p

    def unwrap(x):
        if isinstance(x, numpoly.ndpoly):
            return raw[id(x)]
        if isinstance(x, (list, tuple)) and any(isinstance(y, numpoly.ndpoly) for y in x):
            return type(x)(unwrap(y) for y in x)
        return x

    registered = sorted({f.__name__ for f in list(numpoly.FUNCTION_COLLECTION) + list(numpoly.UFUNC_COLLECTION)})
    skipped = []
    for name in registered:
        genf = E.get(name)
        npf = getattr(numpy, name, None) or getattr(numpy.linalg, name, None)
        nplf = getattr(numpoly, name, None)
        if genf is None or name in SKIP or npf is None or nplf is None:
            skipped.append(name)
            continue
        for _ in range(reps):
            raw.clear()
            try:
                args, kw = genf(rng, mk)
                if name in ("floor_divide", "remainder", "divmod") and rng.random() < 0.3:
                    # integer operands of different widths, values beyond 2**53, booleans: numpy keeps them integral (D43)
                    da, db = rng.choice([("int64", "int32"), ("int64", "int16"), ("uint8", "int16"), ("int32", "int64"), ("bool", "bool"),
                                         ("bool", "int64"), ("int64", "uint8"), ("uint16", "uint8")])
                    s_ = catalogue._shape(rng, 0, 2)
                    n_ = int(numpy.prod(s_)) if s_ else 1
                    va = [rng.choice([2 ** 60 + 1, -(2 ** 61) - 3, 7, 0, -5]) if da == "int64" else rng.choice([0, 1, 5, 7, 100]) for _ in range(n_)]
                    vb = [rng.choice([1, 2, 3, 7]) for _ in range(n_)]
                    aa = numpy.array(va).astype(da).reshape(s_)
                    bb = numpy.array(vb).astype(db).reshape(s_)
                    pa_ = numpoly.polynomial(aa)
                    raw[id(pa_)] = aa
                    args, kw = (pa_, bb), {}
                if name == "power" and rng.random() < 0.4:
                    # exponents that are not natural numbers: for constants numpy's own power (D41: they used to be
                    # truncated to integers, numpy.power(polynomial([4., 9.]), 0.5) was [1, 1])
                    s_ = catalogue._shape(rng, 0, 2)
                    base = numpoly.polynomial(numpy.array([rng.choice([0.25, 1.0, 4.0, 9.0, 2.0]) for _ in range(int(numpy.prod(s_)) if s_ else 1)]).reshape(s_))
                    raw[id(base)] = numpy.asarray(base.tonumpy())
                    args = (base, rng.choice([0.5, -1, -1.0, 2.0, -2, 1.5, numpy.array([0.5, 2.0]) if s_ in ((), (2,)) or (s_ and s_[-1] == 2) else -0.5]))
            except Exception:  # noqa: BLE001
                continue
            rargs = tuple(unwrap(a) for a in args)
            rkw = {k: unwrap(v) for k, v in kw.items()}
            desc = f"{name}({', '.join(show_arg(a) for a in rargs)}" \
                   f"{''.join(f', {k}={v!r}' for k, v in rkw.items())})"[:300]
            dist[name] = dist.get(name, 0) + 1
            try:
                with numpy.errstate(all="ignore"):
                    exp = npf(*rargs, **rkw)
                exp_err = None
            except Exception as exc:  # noqa: BLE001
                exp, exp_err = None, type(exc).__name__
            spelling = rng.choice(["numpoly", "numpy"])
            try:
                with numpy.errstate(all="ignore"):
                    got = (nplf if spelling == "numpoly" else npf)(*args, **kw)
                got_err = None
            except Exception as exc:  # noqa: BLE001
                got, got_err = None, f"{type(exc).__name__}: {exc}"
            n_eval += 1
            if exp_err is not None:
                # numpy rejects these arguments: the property claims nothing (it speaks of what numpy RETURNS); counted only
                if got_err is None:
                    accepted.append(f"{desc} [{spelling}] returns although numpy raises {exp_err}")
                continue
            if got_err is not None:
                viol.append((f"{name}:raise", f"{desc} [{spelling}] raised {got_err}; numpy returns {repr(exp)[:120]}",
                             {"function": name, "call": desc}))
                continue
            # float rounding: numpy's own result is only accurate to a few ulps of the operand scale (det goes through an
            # LU factorisation, sums/products cancel), so a float result may differ from it by that much
            fl = [abs(float(v)) for a in rargs for v in flat_values(a)
                  if isinstance(v, float) and v == v and abs(v) != float("inf")]
            scale = max([1.0] + fl)
            power = numpy.asarray(rargs[0]).shape[-1] if name == "det" and numpy.asarray(rargs[0]).ndim >= 2 else 2
            # exact agreement is required (numpoly applies the same numpy kernel to the same numbers); only where numpoly
            # legitimately evaluates in another order is a rounding slack granted
            loose = name in LOOSE_FLOAT
            d = same(got, exp, atol=(1e-13 * len(fl) * scale ** power) if (fl and loose) else 0.0, exact=not loose)
            vals = flat_values(rargs[0] if not callable(rargs[0]) else rargs[-1]) if rargs else []
            if len(set(map(str, vals))) < len(vals) or any(isinstance(v, (int, float)) and v < 0 for v in vals):
                nontrivial.add((name, desc))
            if d:
                kind = f"{name}:value"
                if name in ("argmax", "argmin") and len(set(map(str, vals))) < len(vals):
                    kind = f"{name}:ties"
                if name in ("amax", "amin", "max", "min") and rkw.get("axis") is not None:
                    kind = f"{name}:axis"
                if name == "repeat" and "axis" not in rkw and numpy.asarray(rargs[0]).ndim >= 2:
                    kind = "repeat:default-axis"
                if 0 in numpy.asarray(exp).shape if not isinstance(exp, (tuple, list)) else False:
                    kind = f"{name}:zero-size"
                viol.append((kind, f"{desc} [{spelling}]: {d}", {"function": name, "call": desc}))
            report.sample({"call": desc, "numpy": repr(exp)[:80]}, cap=8)

    # ---- numeric division by a non-constant polynomial must be refused ------------------------------
    q0, q1 = numpoly.variable(2)
    for name in ("floor_divide", "true_divide", "divide", "remainder", "mod", "divmod"):
        npf = getattr(numpy, name)
        for dividend in (numpoly.polynomial([4, 6]), numpoly.polynomial([4 * q0, 6]), 7, numpy.array([2.0, 4.0])):
            for divisor in (numpoly.polynomial([q0, 2]), q0 + 1, numpoly.polynomial([[q1], [q0 * q1]])):
                for label, fn in (("numpy", npf), ("numpoly", getattr(numpoly, name, None))):
                    if fn is None:
                        continue
                    n_eval += 1
                    try:
                        out = fn(dividend, divisor)
                        viol.append((f"{name}:nonconstant-divisor", f"{label}.{name}({dividend}, {divisor}) returned {out} instead of raising "
                                     f"FeatureNotSupported", {"function": name}))
                    except numpoly.FeatureNotSupported:
                        pass
                    except Exception as exc:  # noqa: BLE001
                        viol.append((f"{name}:nonconstant-divisor", f"{label}.{name}({dividend}, {divisor}) raised {type(exc).__name__}: {exc} "
                                     f"instead of FeatureNotSupported", {"function": name}))

    # ---- out= targets, fresh and aliasing the first operand (in-place forms) --------------------------
    for name in ("floor_divide", "true_divide", "add", "subtract", "multiply"):
        npf = getattr(numpy, name)
        for _ in range(reps):
            shape = catalogue._shape(rng, 1, 2)
            size = int(numpy.prod(shape))
            a = numpy.array([rng.choice([-6, -3, -1, 0, 2, 4, 7]) for _ in range(size)], dtype=float).reshape(shape)
            d = numpy.array([rng.choice([-2, -1, 1, 2, 4]) for _ in range(size)], dtype=float).reshape(shape)
            if rng.random() < 0.4:
                d = d.reshape(-1)[:1].reshape(())          # scalar second operand
            for aliased in (False, True):
                pa, pd = numpoly.polynomial(a.copy()), numpoly.polynomial(numpy.array(d, copy=True))
                out = pa if aliased else numpoly.polynomial(numpy.zeros(shape))
                exp = npf(a, d)
                n_eval += 1
                try:
                    with numpy.errstate(all="ignore"):
                        got = npf(pa, pd, out=out)
                except Exception as exc:  # noqa: BLE001
                    accepted.append(f"numpy.{name}(p, d, out=...) raised {type(exc).__name__}: {str(exc)[:80]}")
                    continue
                dsc = same(got, exp)
                if not dsc and isinstance(out, numpoly.ndpoly):
                    dsc = same(out, exp, "out")
                if dsc:
                    viol.append((f"{name}:out" + (":aliased" if aliased else ""),
                                 f"numpy.{name}({a.tolist()}, {numpy.asarray(d).tolist()}, out={'the first operand' if aliased else 'a fresh array'}): {dsc}",
                                 {"function": name, "aliased": aliased}))

    # ---- Coq models on constants: comparisons, linear reductions, selections -------------------------
    ncoq = 150 if tier == "quick" else 2000
    codes = {"greater": "code_gt", "greater_equal": "code_ge", "less": "code_lt", "less_equal": "code_le"}
    for _ in range(ncoq):
        s, t = catalogue._bpair(rng)
        a = numpy.array([rng.randint(-2, 2) for _ in range(int(numpy.prod(s)) if s else 1)], dtype=numpy.int64).reshape(s)
        b = numpy.array([rng.randint(-2, 2) for _ in range(int(numpy.prod(t)) if t else 1)], dtype=numpy.int64).reshape(t)
        pa, pb = numpoly.polynomial(a), numpoly.polynomial(b)
        nm = rng.choice(sorted(codes))
        got = numpy.asarray(getattr(numpoly, nm)(pa, pb))
        ka = f"(K {core.cnats(s)} {core.cseq(core.cz(v) for v in a.ravel().tolist())})"
        kb = f"(K {core.cnats(t)} {core.cseq(core.cz(v) for v in b.ravel().tolist())})"
        cc.add(f"chk_bool (zcmp {codes[nm]} {ka} {kb}) (BOk {core.cnats(got.shape)} {core.cseq(core.cbool(x) for x in got.ravel().tolist())})",
               {"function": nm, "a": a.tolist(), "b": b.tolist()})
        for fn, coqf in (("add", "padd"), ("subtract", "psub"), ("multiply", "pmul")):
            r = getattr(numpoly, fn)(pa, pb)
            sh, els = core.canon_elements(r)
            cc.add(f"chk (@{coqf} ZR D {ka} {kb}) (EOk {core.coq_obs(sh, els)})", {"function": fn, "a": a.tolist(), "b": b.tolist()})
    failed, errors = cc.run()
    report.coverage.update({
        "evaluations": n_eval, "distinct_nontrivial": len(nontrivial), "coq_cases": len(cc.cases),
        "traces_validated_against_impl": len(cc.cases), "calls_per_function": dist, "functions_without_generator": skipped,
        "rule": "every registered function with a catalogue generator x numeric arrays of 0-3 dims (ints, integer-valued and "
                "half-integer floats, repeated values, negatives, zeros) x axis/keepdims arguments, numpoly and numpy "
                "spelling, oracle = numpy on the raw arrays; 6 division spellings x 4 dividends x 3 non-constant divisors; "
                "non-trivial = argument with a repeated or negative value; distinct by (function, call)",
        "translator": "ok" if tr_ok else "failed",
        "numpy_rejects_numpoly_accepts": {"count": len(accepted), "examples": accepted[:5]},
    })
    seen = set()
    for kind, what, rep in viol:
        kf = report.match_known(kind)
        if kf:
            if kind not in seen:
                seen.add(kind)
                report.known_finding(kf["id"], kf["what"] + " — e.g. " + what[:220])
            continue
        if kind in seen:
            continue
        seen.add(kind)
        report.violation("C11: " + what, {"kind": kind, **rep})
    if not report.violations:
        for k, path, log in errors:
            report.violation(f"correspondence shard did not evaluate: {log[-300:]}", {"kind": "shard-error", "log": log}, found_input=False)
        for idx in failed[:3]:
            term, meta = cc.cases[idx]
            report.violation(f"model and implementation disagree on {meta}", {"kind": "correspondence", "term": term[:1500], **meta})
        if not ok and not report.violations:
            report.violation("C11: proof obligation no longer checks: " + str(report.coverage.get("broken_obligation", {}).get("where")),
                             {"kind": "broken-proof", **report.coverage.get("broken_obligation", {})}, found_input=False)
    report.coverage["trusted_base"] = ["Coq 8.16.1 kernel + VM", "MathComp", "translator const_tr.py (division guards by ast)",
                                       "numpy on the raw arrays as oracle"]
    report.assumptions += ["numpy functions themselves are not modelled (they are the oracle)",
                           "floats compared to 1e-12 relative (same numpy kernels on both sides)"]


def replay(path):
    data = json.load(open(path))
    print(json.dumps(data["replay"], indent=1)[:3000])
    return 0
