"""C07 — comparison operators form one documented strict total order."""
from __future__ import annotations

import itertools
import json
import operator

import numpy
import numpoly

from harness import core

HEADER = """From Coq Require Import ZArith.
From mathcomp Require Import all_ssreflect all_algebra ssrZ.
From NP Require Import Base Poly Harness Order Compare GenCompare.
Delimit Scope Z_scope with CZ.
Local Notation P := ZParr.
"""
TARGETS = ["Bridge/BridgeCompare.vo", "Props/P_C07.vo"]
OPS = {"gt": (operator.gt, numpy.greater, "gen_greater"), "ge": (operator.ge, numpy.greater_equal, "gen_greater_equal"),
       "lt": (operator.lt, numpy.less, "gen_less"), "le": (operator.le, numpy.less_equal, "gen_less_equal")}


def opts_coq(g, r):
    return f"(Opts false true {'true' if g else 'false'} {'true' if r else 'false'})"


def build_array(elems, names, dtype=numpy.int64):
    """elems: list of {exponent tuple: coeff}; a 1-d polynomial array over `names`."""
    rows = sorted({m for e in elems for m in e} | {(0,) * len(names)})
    cols = [numpy.array([e.get(m, 0) for e in elems], dtype=dtype) for m in rows]
    return numpoly.polynomial_from_attributes([list(m) for m in rows], cols, names=tuple(f"q{n}" for n in names))


def okey(g, r, m):
    return ((sum(m),) if g else ()) + (tuple(m) if r else tuple(reversed(m)))


def spec_sign(ea, na, eb, nb, g, r):
    """Documented order: sign of (a - b)'s coefficient at the largest monomial where they differ,
    monomials taken over the union of the names in index order."""
    names = sorted(set(na) | set(nb))

    def widen(e, ns):
        out = {}
        for m, c in e.items():
            d = dict(zip(ns, m))
            out[tuple(d.get(v, 0) for v in names)] = out.get(tuple(d.get(v, 0) for v in names), 0) + c
        return out
    a, b = widen(ea, na), widen(eb, nb)
    diff = [m for m in set(a) | set(b) if a.get(m, 0) != b.get(m, 0)]
    if not diff:
        return 0
    top = max(diff, key=lambda m: okey(g, r, m))
    return 1 if a.get(top, 0) > b.get(top, 0) else -1


def universe(nvars, maxexp, maxterms, coefs):
    monos = list(itertools.product(range(maxexp + 1), repeat=nvars))
    out = [{}]
    for k in range(1, maxterms + 1):
        for ms in itertools.combinations(monos, k):
            for cs in itertools.product(coefs, repeat=k):
                out.append(dict(zip(ms, cs)))
    return out


def rand_big(rng, nvars, nterms, deg):
    """Many terms of one degree (where an unstable sort would show)."""
    e = {}
    tries = 0
    while len(e) < nterms and tries < 10 * nterms:
        tries += 1
        cuts = sorted(rng.randint(0, deg) for _ in range(nvars - 1))
        m = tuple(b - a for a, b in zip([0] + cuts, cuts + [deg]))
        e[m] = rng.choice([-2, -1, 1, 2, 3])
    return e


def perturb(rng, e):
    f = dict(e)
    ks = list(f)
    for _ in range(rng.randint(0, 2)):
        k = rng.choice(ks)
        f[k] = f[k] + rng.choice([-1, 1])
    return f


def run(report, tier, seed):
    from harness.translators import compare_tr
    tr_ok, info = True, None
    try:
        info = compare_tr.generate(core.REPO, core.COQ)
    except (compare_tr.TranslatorError, SyntaxError, OSError) as exc:
        tr_ok = False
        report.notes.append(f"translator failed: {exc}")
    ok = tr_ok and core.prove(report, TARGETS)
    rng = core.rng_for(seed, "C07")
    cc = core.CoqCases("C07", HEADER, shard=60)
    viol = []
    n_pairs = 0
    distinct = set()

    uni2 = universe(2, 2, 2, (-1, 1, 2))
    uni3 = universe(3, 1, 2, (-1, 2))
    batches = []        # (elemsA, namesA, elemsB, namesB, elemsC, namesC)
    nb = 10 if tier == "quick" else 120
    width = 60
    for k in range(nb):
        kind = rng.choice(["uni2", "uni2", "uni3", "mixed", "big", "huge", "u64", "dense"])
        if k < 5:            # every run has at least one batch of each of the special kinds
            kind = ["u64", "huge", "mixed", "big", "dense"][k]
        dts = (numpy.int64, numpy.int64, numpy.int64)
        if kind == "uni2":
            na = nb_ = nc = (0, 1)
            A, B, C = ([rng.choice(uni2) for _ in range(width)] for _ in range(3))
        elif kind == "uni3":
            na = nb_ = nc = (0, 1, 2)
            A, B, C = ([rng.choice(uni3) for _ in range(width)] for _ in range(3))
        elif kind == "mixed":        # different name sets: q0,q2 vs q1 vs q2,q10
            na, nb_, nc = (0, 2), (1,), (2, 10)
            A = [rng.choice(uni2) for _ in range(width)]
            B = [{(rng.randint(0, 2),): rng.choice([-1, 1, 2])} for _ in range(width)]
            C = [rng.choice(uni2) for _ in range(width)]
        elif kind == "huge":      # int64 coefficients whose differences do not fit in int64
            na = nb_ = nc = (0, 1)
            big = [2 ** 63 - 1, -(2 ** 63 - 1), 2 ** 62, -(2 ** 62), 2 ** 63 - 2, 1, -2, 0]

            def hp():
                return {m: rng.choice(big) for m in rng.sample([(0, 0), (1, 0), (0, 1), (1, 1), (2, 0)], rng.randint(1, 3))}
            A, B, C = ([hp() for _ in range(width)] for _ in range(3))
        elif kind == "u64":       # int64 against uint64 operands that differ by less than the float64 spacing
            na = nb_ = nc = (0, 1)
            near = [2 ** 63 - 1, 2 ** 63 - 2, 2 ** 62 + 1, 2 ** 62, 2 ** 53 + 1, 2 ** 53, 3, 0]
            unear = near + [2 ** 63, 2 ** 63 + 1, 2 ** 64 - 1]
            dts = (numpy.int64, numpy.uint64, numpy.int64) if rng.random() < 0.5 else (numpy.uint64, numpy.int64, numpy.uint64)

            def hp(vals):
                return {m: rng.choice(vals) for m in rng.sample([(0, 0), (1, 0), (0, 1), (1, 1), (2, 0)], rng.randint(1, 3))}
            A, B, C = ([hp(unear if d is numpy.uint64 else near + [-v for v in near]) for _ in range(width)] for d in dts)
            # pairs that agree everywhere except for +-1 on one coefficient beyond 2**53 (and possibly an opposite
            # difference on another term): the verdict must come from the exact integers
            bigs = [2 ** 63 - 5, 2 ** 62 + 1, 2 ** 53 + 1, 2 ** 60 + 3]
            for j in range(len(A)):
                if rng.random() < 0.6:
                    base = {m: rng.choice(bigs + [3, 1]) for m in rng.sample([(0, 0), (1, 0), (0, 1), (1, 1), (2, 0)], rng.randint(2, 4))}
                    if not any(v > 2 ** 53 for v in base.values()):
                        base[(1, 1)] = rng.choice(bigs)
                    A[j], B[j] = dict(base), dict(base)
                    mbig = rng.choice([m for m, v in base.items() if v > 2 ** 53])
                    B[j][mbig] = base[mbig] + rng.choice([1, -1])
                    if rng.random() < 0.5:
                        mo = rng.choice(list(base))
                        if mo != mbig:
                            A[j][mo] = base[mo] + rng.choice([1, 2])
        elif kind == "dense":
            # every monomial up to a total degree (10-35 aligned terms of SEVERAL degrees): operands that agree except at
            # two monomials of one total degree, in opposite directions - the verdict is decided by the order WITHIN a
            # degree, which only a stable graded stage keeps (a sort of all-equal keys tends to leave them alone, so
            # the one-degree batches below do not show an unstable sort on every machine)
            nv = rng.choice([2, 3])
            na = nb_ = nc = tuple(range(nv))
            deg = rng.choice([3, 4]) if nv == 2 else rng.choice([2, 3, 4])
            monos = [m for m in itertools.product(range(deg + 1), repeat=nv) if sum(m) <= deg]

            def twist(e):
                f = dict(e)
                d = rng.randint(1, deg)
                same = [m for m in monos if sum(m) == d]
                m1, m2 = rng.sample(same, 2)
                f[m1] += 1
                f[m2] -= 1
                if rng.random() < 0.3:
                    m3 = rng.choice([m for m in monos if sum(m) < d])
                    f[m3] += rng.choice([-1, 1])
                return f
            A = [{m: rng.choice([-3, -2, 2, 3, 4]) for m in monos} for _ in range(12)]
            B = [twist(a) for a in A]
            C = [twist(b) for b in B]
        else:
            na = nb_ = nc = (0, 1, 2)
            deg = rng.randint(5, 9)
            A = [rand_big(rng, 3, rng.randint(20, 40), deg) for _ in range(12)]
            B = [perturb(rng, a) for a in A]
            C = [perturb(rng, b) for b in B]
        # force some equal and near-equal pairs
        if na == nb_:
            for j in range(0, len(A), 7):
                B[j] = dict(A[j]) if kind != "u64" else ({m: v for m, v in A[j].items() if 0 <= v < 2 ** 63} or {(0, 0): 1})
                if kind == "u64":
                    A[j] = dict(B[j])
        batches.append((A, na, B, nb_, C, nc, dts))

    settings = [(True, False), (False, False), (True, True), (False, True)]
    for bi, (A, na, B, nb_, C, nc, dts) in enumerate(batches):
        pa, pb, pc = build_array(A, na, dts[0]), build_array(B, nb_, dts[1]), build_array(C, nc, dts[2])
        for g, r in (settings if tier == "thorough" or bi < 4 else [settings[bi % 4]]):
            with numpoly.global_options(sort_graded=g, sort_reverse=r):
                res = {}
                for name, (op, npf, _) in OPS.items():
                    res[name] = numpy.asarray(op(pa, pb))
                    if name in ("lt", "ge") and not numpy.array_equal(res[name], npf(pa, pb)):
                        viol.append((f"numpy.{npf.__name__} and operator disagree", {"kind": "spelling", "op": name}))
                res["eq"] = numpy.asarray(pa == pb)
                res["ne"] = numpy.asarray(pa != pb)
                lt_bc, lt_ac = numpy.asarray(pb < pc), numpy.asarray(pa < pc)
                gt_ba = numpy.asarray(pb > pa)
                mx, mn = numpoly.maximum(pa, pb), numpoly.minimum(pa, pb)
            n = len(A)
            n_pairs += n
            for i in range(n):
                sign = spec_sign(A[i], na, B[i], nb_, g, r)
                lt, gt, eq = bool(res["lt"][i]), bool(res["gt"][i]), bool(res["eq"][i])
                rep = {"kind": "order", "a": str(A[i]), "names_a": na, "b": str(B[i]), "names_b": nb_,
                       "sort_graded": g, "sort_reverse": r,
                       "impl": {k: bool(v[i]) for k, v in res.items()}}
                if (lt, eq, gt) != (sign < 0, sign == 0, sign > 0):
                    viol.append((f"order of a={A[i]} (names {na}) and b={B[i]} (names {nb_}) under graded={g}, reverse={r}: "
                                 f"(a<b, a==b, a>b) = {(lt, eq, gt)}, documented order says sign {sign}", rep))
                if bool(res["le"][i]) != (not gt) or bool(res["ge"][i]) != (not lt) or bool(res["ne"][i]) != (not eq):
                    viol.append((f"<=, >=, != are not the complements of >, <, == for a={A[i]}, b={B[i]}", rep))
                if bool(gt_ba[i]) != lt:
                    viol.append((f"a<b but not b>a for a={A[i]}, b={B[i]}", rep))
                if lt and bool(lt_bc[i]) and not bool(lt_ac[i]):
                    viol.append((f"transitivity fails: a<b, b<c, not a<c for a={A[i]}, b={B[i]}, c={C[i]}", {**rep, "c": str(C[i]), "names_c": nc}))
                if sign != 0:
                    distinct.add((str(A[i]), str(B[i]), g, r))
            la, lb = core.poly_layout(pa), core.poly_layout(pb)
            ta, tb = core.coq_parr(la), core.coq_parr(lb)
            o = opts_coq(g, r)
            shape = core.cnats([n])
            for name, (_, _, gen) in OPS.items():
                vals = core.cseq(core.cbool(bool(v)) for v in res[name])
                cc.add(f"chk_bool (zcompare {gen} {o} {ta} {tb}) (BOk {shape} {vals})",
                       {"kind": name, "batch": bi, "graded": g, "reverse": r})
            cc.add(f"chk_bool (zequal {o} {ta} {tb}) (BOk {shape} {core.cseq(core.cbool(bool(v)) for v in res['eq'])})",
                   {"kind": "eq", "batch": bi})
            cc.add(f"chk_bool (znot_equal {o} {ta} {tb}) (BOk {shape} {core.cseq(core.cbool(bool(v)) for v in res['ne'])})",
                   {"kind": "ne", "batch": bi})
            for nm, pres, gen in (("max", mx, "gen_maximum"), ("min", mn, "gen_minimum")):
                sh, els = core.canon_elements(pres)
                rd = pres.dtype      # int64 with uint64 operands: numpy's common dtype is float64, the selected operand is
                                     # stored rounded to it (C12's business); the selection itself is what is checked here
                rc = (lambda c: c) if rd.kind in "iu" else (lambda c, rd=rd: int(rd.type(c)))
                if rd.kind in "iu":
                    cc.add(f"chk (zselect {gen} {o} {ta} {tb}) (EOk {core.coq_obs(sh, els)})", {"kind": nm, "batch": bi})
                # maximum/minimum return the larger/smaller operand
                for i in range(n):
                    sign = spec_sign(A[i], na, B[i], nb_, g, r)
                    want = A[i] if ((sign > 0) == (nm == "max") and sign != 0) else B[i]
                    wn = na if want is A[i] else nb_
                    got = els[i]
                    wcanon = sorted((tuple(sorted((v, e) for v, e in zip(wn, m) if e)), rc(c)) for m, c in want.items() if rc(c))
                    if got != wcanon:
                        viol.append((f"{nm}imum(a,b) is not the {'larger' if nm == 'max' else 'smaller'} operand for a={A[i]}, b={B[i]}",
                                     {"kind": nm, "a": str(A[i]), "b": str(B[i]), "got": str(got)}))
        report.sample({"a": str(A[0]), "names_a": na, "b": str(B[0]), "names_b": nb_,
                       "a<b (default options)": bool(numpy.asarray(pa < pb)[0])}, cap=4)
    # broadcasting and 0-d operands, numeric operand
    q0, q1 = numpoly.variable(2)
    small = [(q0 < q1, True), (q0 * 0 + 3 < 4, True), (numpoly.polynomial([[q0], [q1]]) < numpoly.polynomial([q0, q1 * q0]), None)]
    for val, want in small[:2]:
        if bool(val) != want:
            viol.append(("0-d comparison gives a wrong verdict", {"kind": "scalar"}))
    if numpy.asarray(small[2][0]).shape != (2, 2):
        viol.append(("comparison does not broadcast", {"kind": "broadcast"}))
    # two-sided broadcasting: an (n,1) column (also (n,1,1)) against a (1,m) row / an (m,) vector / an (n',m) block - every
    # result element must be the verdict for the pair numpy's broadcasting puts there
    for _ in range(8 if tier == "quick" else 80):
        n_, m_ = rng.randint(2, 3), rng.randint(2, 3)
        A_ = [rng.choice(uni2) for _ in range(n_)]
        B_ = [rng.choice(uni2) for _ in range(m_)]
        if rng.random() < 0.4:
            B_[0] = dict(A_[-1])
        g, r = rng.choice(settings)
        form = rng.randrange(3)
        pa = numpoly.reshape(build_array(A_, (0, 1)), (n_, 1) if form < 2 else (n_, 1, 1))
        pb = build_array(B_, (0, 1)) if form == 0 else numpoly.reshape(build_array(B_, (0, 1)), (1, m_))
        ia, ib = numpy.broadcast_arrays(numpy.arange(n_).reshape(pa.shape), numpy.arange(m_).reshape(pb.shape))
        with numpoly.global_options(sort_graded=g, sort_reverse=r):
            try:
                res = {name: numpy.asarray(op(pa, pb)) for name, (op, _, _) in OPS.items()}
                res["eq"], res["ne"] = numpy.asarray(pa == pb), numpy.asarray(pa != pb)
                _, mx_e = core.canon_elements(numpoly.maximum(pa, pb))
            except Exception as exc:  # noqa: BLE001
                viol.append((f"comparison of shapes {pa.shape} and {pb.shape} raised {type(exc).__name__}: {exc}", {"kind": "broadcast"}))
                continue
        n_pairs += ia.size
        for k_, (i, j) in enumerate(zip(ia.ravel().tolist(), ib.ravel().tolist())):
            sign = spec_sign(A_[i], (0, 1), B_[j], (0, 1), g, r)
            got = tuple(bool(res[nm_].ravel()[k_]) if res[nm_].shape == ia.shape else None for nm_ in ("lt", "le", "gt", "ge", "eq", "ne"))
            want = (sign < 0, sign <= 0, sign > 0, sign >= 0, sign == 0, sign != 0)
            big = A_[i] if sign > 0 else B_[j]
            wmax = sorted((tuple(sorted((v, e) for v, e in zip((0, 1), m) if e)), c) for m, c in big.items() if c)
            if got != want or mx_e[k_] != wmax:
                viol.append((f"broadcast comparison of shapes {pa.shape} x {pb.shape} (graded={g}, reverse={r}): element {k_} compares "
                             f"a[{i}]={A_[i]} with b[{j}]={B_[j]}: (<, <=, >, >=, ==, !=) = {got}, documented order says {want}; maximum there is {mx_e[k_]}",
                             {"kind": "broadcast", "a": str(A_), "b": str(B_), "shapes": [list(pa.shape), list(pb.shape)]}))
                break

    failed, errors = cc.run() if tr_ok else ([], [])
    report.coverage.update({
        "evaluations": n_pairs, "distinct_nontrivial": len(distinct),
        "rule": "pairs (and triples for transitivity) of polynomials drawn from the bounded universes {2 names, exp<=2, "
                "<=2 terms, coef in -1,1,2}, {3 names, exp<=1}, mixed name sets (q0,q2 | q1 | q2,q10) and random "
                "polynomials with 20-40 terms of one degree (and perturbations), all four sort_graded/sort_reverse "
                "settings; distinct non-trivial = ordered pairs that differ in at least one coefficient",
        "coq_cases": len(cc.cases), "translator": "ok" if tr_ok else "failed", "source_facts": info,
        "traces_validated_against_impl": len(cc.cases),
    })
    # ---- operands that SHARE a name tuple stored out of index order (names given explicitly to a constructor): the
    #      verdict must be the one for the same polynomials with the names in index order (known finding D39)
    probes = []
    for g, r in settings:
        with numpoly.global_options(sort_graded=g, sort_reverse=r):
            a_ = numpoly.polynomial({(1, 0): 1}, names=("q1", "q0"))      # q1
            b_ = numpoly.polynomial({(0, 1): 1}, names=("q1", "q0"))      # q0
            q0_, q1_ = numpoly.variable(2)
            try:
                got = (bool(a_ < b_), bool(a_ > b_), str(numpoly.maximum(a_, b_)))
                want = (bool(q1_ < q0_), bool(q1_ > q0_), str(numpoly.maximum(q1_, q0_)))
            except Exception as exc:  # noqa: BLE001
                got, want = f"{type(exc).__name__}: {exc}", None
            if got != want:
                probes.append((f"q1 and q0, both stored with names ('q1', 'q0') (graded={g}, reverse={r}): (a<b, a>b, maximum) = {got}, "
                               f"for the same polynomials with names in index order {want}", {"kind": "order:unsorted-shared-names"}))
    kinds = set()
    for what, rep in probes:
        kf = report.match_known(rep["kind"])
        if kf and rep["kind"] not in kinds:
            report.known_finding(kf["id"], kf["what"] + " — e.g. " + what[:260])
        elif not kf:
            viol.append((what, rep))
        kinds.add(rep["kind"])
    for what, rep in viol:
        if rep["kind"] in kinds:
            continue
        kinds.add(rep["kind"])
        report.violation("C07: " + what, rep)
    if not viol:
        for k, path, log in errors:
            report.violation(f"correspondence shard did not evaluate: {log[-300:]}", {"kind": "shard-error", "log": log}, found_input=False)
        for idx in failed[:3]:
            term, meta = cc.cases[idx]
            report.violation(f"model and implementation disagree on {meta}", {"kind": "correspondence", **meta}, found_input=False)
        if not ok and not report.violations:
            report.violation("C07: bridge/proof obligation no longer checks: "
                             + str(report.coverage.get("broken_obligation", {}).get("where") or report.notes),
                             {"kind": "broken-proof", "theorem": "Bridge/BridgeCompare.v", **report.coverage.get("broken_obligation", {})},
                             found_input=False)
    report.coverage["trusted_base"] = ["Coq 8.16.1 kernel + VM", "MathComp (ssrnum, path)", "translator compare_tr.py",
                                       "harness-side statement of the documented order (spec_sign)"]
    report.assumptions += ["coefficients are integers (ordered ring); complex and NaN coefficients have no order and are excluded",
                           "indeterminate names in index order within each operand (operands sharing an out-of-order name tuple: known finding D39)"]


def replay(path):
    data = json.load(open(path))
    print(json.dumps(data["replay"], indent=1)[:2500])
    return 0
