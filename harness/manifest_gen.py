"""Regenerates /verif/MANIFEST.json from the table below (run by hand after adding a check)."""
import json
import os

VERIF = os.path.dirname(os.path.dirname(os.path.abspath(__file__)))

CHECKS = {
    "C01": dict(
        technique="Coq proof: refinement of the executable storage model to SsrMultinomials {mpoly R[n]} "
                  "(induction over term lists and expression trees) + vm_compute correspondence with /repo",
        text="Theorems (Props/P_C01.v, closed under the global context): +, -, unary -, *, ** and every expression "
             "tree over them return, in numpy's broadcast shape, exactly the element-wise ring value in {mpoly R[n]}; "
             "commutativity, associativity, distributivity, x^(j+k)=x^j*x^k as corollaries. The model is tied to /repo "
             "by running it (vm_compute, coefficients in Z) on the same random operand pairs / trees as the implementation.",
        note="Trusted: Coq kernel+VM, MathComp/SsrMultinomials, harness (generators, observation, literal encoding). "
             "Modelled not verified: numpy broadcasting/unique/tile, the Cython multiply kernel (as set-or-accumulate by key). "
             "Not covered: float rounding, int64 overflow, out=/where= arguments, array-valued exponents of ** (see DESIGN)."),
    "C14": dict(
        technique="Coq proof: invariant by nested induction over user programs of a state-machine model whose "
                  "behaviour flags are regenerated from option.py by an ast translator (bridge lemma) + exhaustive "
                  "bounded histories run on /repo and on the model",
        text="Theorems (Props/P_C14.v): for every reachable state and every nested block body, leaving a "
             "global_options block (normally or by exception) restores the complete previous option set; inside, "
             "exactly the given options differ; an unknown key gives KeyError with nothing changed and no block "
             "entered; get_options results are detached; defaults and key set never change. Bridge lemma: the code "
             "facts extracted from the current option.py equal the ones the theorems assume.",
        note="Trusted: Coq kernel+VM, the ast translator (shape recognition of option.py), contextlib semantics, "
             "single-threaded use. Correspondence is exhaustive for nested programs up to 3 (quick) / 4 (thorough, sampled above 60k) nodes."),
    "C20": dict(
        technique="Coq proof (stdlib, lia): key codec bijection on the representable range, guarded product key = encoded "
                  "exponent sum, key-indexed storage merges exactly equal rows; bridge lemmas over facts regenerated from "
                  "baseclass.py/polynomial.py/multiply.py; exhaustive codec sweep + all pairs a+b<=bound on /repo",
        text="Theorems (Props/P_C20.v): decode(encode e)=e and encode injective for every exponent whose code point fits "
             "uint32, never ':'/NUL, every exponent < 55000 representable, rows likewise; with multiply.py's guard (read "
             "from the source) the product key is the encoded exponent sum for ALL exponents, hence products through key "
             "storage and back are the exact term-by-term product merged by exponent row ((c q^a)(d q^b) = cd q^(a+b)); "
             "the unguarded kernel is refuted (witnesses 34+35, 128+128).",
        note="Trusted: Coq kernel+VM, stdlib; translator key_tr.py; numpy's field-name acceptance modelled by valid_cp and "
             "validated on every exponent 0..60000; streams through derivative/call/pickle/text files are checked against "
             "harness-side exact integer arithmetic, not against a theorem. Text files may raise for non-ASCII keys (allowed)."),
    "C18": dict(
        technique="Coq proof (ssreflect, path.v sort_stable): two-pass stable sort = stable sorting permutation for the "
                  "(graded)(reverse) lexicographic order, uniqueness for distinct columns; glexindex no-duplicates/sorted/"
                  "membership test; monomial refinement; bridge over facts read from glexsort.py/glexindex.py; "
                  "exhaustive small domains run on /repo and on the model",
        text="Theorems (Props/P_C18.v): glexsort returns a permutation of 0..n-1 under which the key columns are sorted "
             "for the documented monomial order (any sizes), unique when columns are distinct; the order is total, "
             "transitive, antisymmetric; glexindex has no duplicates, is sorted, and every member passes the bound test "
             "the code applies; bindex = optional reversal; monomial's i-th element denotes the i-th exponent.",
        note="Trusted: Coq kernel+VM, MathComp; translator sort_tr.py (stable argsort, upper & ~lower); numpy.lexsort "
             "semantics validated by correspondence. Partial: 'every tuple inside the bounds is generated' (completeness "
             "of the grid with step-wise truncation) and fractional norms .5/.8 rest on the exhaustive correspondence "
             "against an exact harness oracle on the stated finite domain, not on a theorem."),
    "C07": dict(
        technique="Coq proof (ssrnum, last-write-wins lemma): each comparison loop = lexicographic comparison of the "
                  "coefficient vectors read in descending monomial order; trichotomy, complements, transitivity; bridge "
                  "lemmas over loops regenerated from the eight source files; universe/random pairs and triples on /repo",
        text="Theorems (Props/P_C07.v) over any ordered ring: on the aligned operands (which denote the inputs) the "
             "verdicts of < > <= >= are lexlt / its negation on the coefficient vectors sorted from the largest monomial "
             "down (graded/reverse per the sort options), == is vector equality and implies equal polynomials, != its "
             "negation; exactly one of <,==,> holds; the order on vectors is transitive and asymmetric; maximum/minimum "
             "return the larger/smaller operand. Bridge lemmas: the init comparison, loop comparison and mask of each "
             "source file are the ones assumed (mask proved equivalent to 'coefficients differ' by case analysis).",
        note="Trusted: Coq kernel+VM, MathComp; translator compare_tr.py. Partial: transitivity/antisymmetry are proved "
             "for vectors over ONE common alignment; that the verdict does not depend on which alignment (pairwise vs "
             "three-way, extra zero terms, extra names) is validated by the triple tests on /repo, not yet by a theorem. "
             "'== implies identical' is proved; the converse needs monomial independence (planned). Complex/NaN excluded."),
    "C19": dict(
        technique="Coq proof: last-write-wins over the glexsort enumeration (leading terms), constants and decompose "
                  "refine {mpoly R[n]}; vm_compute correspondence with /repo; harness-side relations for the sort proxy",
        text="Theorems (Props/P_C19.v): lead_exponent/lead_coefficient return, per element, the stored term with "
             "non-zero coefficient that is largest in the selected monomial order (zeros for the zero polynomial); a "
             "constant array denotes constants and tonumpy returns them, non-constants give FeatureNotSupported; "
             "decompose has one monomial per slice and the slices sum to the input.",
        note="Trusted: Coq kernel+VM, MathComp/SsrMultinomials. Partial: set_dimensions is modelled and run against /repo "
             "but has no theorem yet; sortable_proxy/argmax/argmin/amax/amin are checked as relations on /repo's output "
             "(permutation, monotone in (leading exponent, leading coefficient), extreme element) by the harness, not "
             "proved; todict is compared term by term. Integer coefficients."),
    "C03": dict(
        technique="Coq proof: from_attributes/clean (regenerated predicates bridged from clean.py) returns well-formed "
                  "arrays, never changes the denotation, is total on well-formed input, identity with retain flags on; "
                  "invariant over expression trees; layout facts checked on /repo's objects; vm_compute correspondence",
        text="Theorems (Props/P_C03.v): whatever from_attributes returns satisfies the well-formedness predicate and "
             "denotes the input term list; it never fails on well-formed attributes; with retain flags on it is the "
             "identity (round trip), with them off it keeps exactly the terms with a non-zero coefficient or zero "
             "exponent (or the zero constant); duplicate names/rows are rejected; every result of every expression tree "
             "over the ring operators is well-formed. Bridge: keep-term predicate, fallback, name rule and step order of "
             "clean.py are the modelled ones.",
        note="Trusted: Coq kernel+VM, MathComp/SsrMultinomials; translator clean_tr.py (partly textual matching on "
             "ast.unparse). The raw-view/todict rebuild paths and the results of the 17 sampled operations are checked on "
             "/repo's objects by the harness (facts of the property evaluated directly), not proved. Default allocation only."),
    "C04": dict(
        technique="Coq proof: aligners preserve absE (gather/widen/zero-fill lemmas), share shape/names/rows, are "
                  "idempotent; bridge over align.py facts; vm_compute correspondence at layout level + relational facts on /repo",
        text="Theorems (Props/P_C04.v): align_shape gives the broadcast value in the target shape; align_indeterminants "
             "keeps the value and yields the sorted union of names; align_exponents/align_polynomials on any number of "
             "operands return, in argument order, arrays that denote their inputs and share names and the sorted, "
             "duplicate-free union of exponent rows; a second alignment changes nothing.",
        note="Trusted: Coq kernel+VM, MathComp/SsrMultinomials; translator clean_tr.py. 'Arguments never modified' is "
             "checked by byte snapshots on /repo (and belongs to C17). Integer coefficients; dtype promotion is C12's subject."),
    "C06": dict(
        technique="Coq proof: derivative refines SsrMultinomials mderiv (for every option record), hence linearity, "
                  "product rule, Schwarz via mderivD/mderivM/mderiv_comm; gradient via a proved stacking lemma; "
                  "vm_compute correspondence under all 16 retain/sort settings",
        text="Theorems (Props/P_C06.v), for EVERY option record o: derivative with respect to any list of the "
             "polynomial's indeterminates is well-formed, keeps the shape and each element is the iterated formal "
             "partial derivative (mderiv); an unknown name is rejected; mixed partials commute; derivative of a sum / "
             "product obeys linearity / the product rule (with broadcasting); gradient has shape (D,)+p.shape and holds "
             "the first partials in indeterminate order.",
        note="Trusted: Coq kernel+VM, MathComp/SsrMultinomials. Partial: hessian is modelled and run against /repo "
             "(shape (D,D)+p.shape and values under all 16 settings) but has no theorem yet; designation by position or "
             "by indeterminate polynomial is resolved by the harness to the name before the model is called. Integer coefficients."),
    "C02": dict(
        technique="Coq proof: numeric call = SsrMultinomials meval of every element at every broadcast point; binding "
                  "errors; substitution modelled with the C01 operations and run by vm_compute against /repo",
        text="Theorems (Props/P_C02.v): with every indeterminate bound to a number or array, the call returns a plain array "
             "of shape poly.shape + broadcast(argument shapes) whose element (i,j) is meval of element i at the j-th "
             "broadcast point; non-broadcastable arguments give ValueError; unknown keyword names and a name supplied both "
             "positionally and by keyword give TypeError, every other binding succeeds.",
        note="Trusted: Coq kernel+VM, MathComp/SsrMultinomials. Partial: partial application / polynomial arguments "
             "(substitution, comp_mpoly) and 'staged = at once' are modelled with the proved C01 operations and compared "
             "with /repo on every run, and checked as relations on /repo, but not yet stated as theorems; independence "
             "of the numeric carrier type (int / numpy scalar / float) is checked on /repo only (the model erases the carrier)."),
    "C09": dict(
        technique="Coq proof: the two wrapper skeletons (one re-arrangement of the whole storage; align-then-join by columns) "
                  "move whole polynomial elements for EVERY index map (absE of result element j = absE of the source element); "
                  "bridge lemma over the skeleton classification of the 26 anchored files regenerated by ast; numpy's own "
                  "function on index arrays as placement oracle; vm_compute correspondence",
        text="Theorems (Props/P_C09.v, closed under the global context): for every index map sigma, shape, operand and option "
             "record, the M2 wrapper (apply one re-arrangement to the storage, re-wrap with the operand's names) returns a "
             "well-formed array of the requested shape whose element j is exactly the operand's element sigma(j) (0 for a fill "
             "slot), never fails on well-formed input, and keeps the names (retain_names on); the M1 wrapper (align exponents, "
             "join column-wise) returns element (k,i) of the operands at j for every placement tau, with the union of names; "
             "the index maps of reshape/ravel/flatten (identity), broadcasting (bidx), transposition (axis permutation) and "
             "first-axis concatenation are characterised. Bridge: each of the 26 files applies the numpy function of its own "
             "name to the operand's storage and re-wraps with the operand's names.",
        note="Trusted: Coq kernel+VM, MathComp/SsrMultinomials; translator shape_tr.py; that numpy re-arranges structured "
             "records as it re-arranges integers (the placement oracle runs the same numpy function on index arrays) — the "
             "index maps of repeat/tile/split/diag/choose/advanced indexing are numpy's, not modelled. dtype preservation is "
             "checked on /repo only. Known finding D21 (repeat default axis)."),
    "C11": dict(
        technique="Coq proof: the wrappers map constant arrays (names (q0,), one zero exponent row) to constant arrays carrying "
                  "the column function's values, the comparison loops on constants are the numeric comparisons, the numeric "
                  "division wrapper refuses unguarded non-constants; bridge over the division guards regenerated by ast; numpy "
                  "on the raw arrays as oracle for every registered function",
        text="Theorems (Props/P_C11.v, closed under the global context), for every column function f, shape, values and option "
             "record: dispatch1/dispatch2/prearr/plinear/pnumdiv applied to constant arrays return exactly the constant array of "
             "f's values (so tonumpy(numpoly.f(const)) = numpy.f(values)); constants denote constants; < <= > >= on constants are "
             "the numeric comparisons for the four shipped loops, == is value equality, maximum/minimum select by them; a "
             "successful numeric division implies the guarded operands were constant and a non-constant guarded operand gives "
             "FeatureNotSupported. Bridge: floor_divide/true_divide/remainder/divmod of /repo all guard the divisor before dividing.",
        note="Trusted: Coq kernel+VM, MathComp; translator const_tr.py. The numpy functions themselves are the oracle, not "
             "modelled: every registered function with a generator is called on constants (numpoly and numpy spelling) and "
             "compared with numpy on the raw arrays for values, shape and result kind. Calls that numpy itself rejects are "
             "counted, not judged. argmax/argmin/amax/amin first-occurrence and placement are checked on /repo only (fixes "
             "D14, D14b). Known findings D21 (repeat default axis), D22 (zero-size diff)."),
    "C10": dict(
        technique="Coq proof: linear column functions (sum, cumsum, mean, diff, ediff1d) give the same linear combination of "
                  "the element polynomials for EVERY weight matrix; prod = ordered product of slices (induction over the fold "
                  "of multiply); inner/outer/matmul = sums of products of re-arranged operands; det 1x1/2x2 formulas; numpy on "
                  "formal-element object arrays as oracle of the index structure; vm_compute correspondence",
        text="Theorems (Props/P_C10.v, closed under the global context), for every shape, operand, term/name set and option "
             "record: a linear numpy function applied column-wise with weights W yields at j the polynomial sum_(i,w in W_j) "
             "w * element i (never failing on well-formed input), so sum over any axis set is the sum over the fibre; prod "
             "yields prod_k element F_k(j) for the slice maps F; the gather-multiply-reduce pipeline of inner/outer/matmul "
             "yields sum_t w_t * a[sa t] * b[sb t]; det of 1x1 is the entry and of 2x2 stacks a00*a11 - a10*a01.",
        note="Trusted: Coq kernel+VM, MathComp/SsrMultinomials. The weight matrices / fibres / slice maps are numpy's: the "
             "harness obtains them by running the same numpy function on object arrays of formal elements and evaluates the "
             "resulting expression in exact arithmetic; they are not modelled in Coq. Partial: det for sizes >= 3 (first-row "
             "Laplace recursion) is modelled, run against /repo and compared with an exact Leibniz oracle, but has no theorem "
             "yet; mean is compared with the exact rational value to 1e-9. Known findings D22 (zero-size diff), D23 (matmul "
             "with 1-D operands, pinned by the repository's test)."),
    "C08": dict(
        technique="Coq proof by evaluation over regenerated finite tables (registries, reduce/accumulate maps, numpy's "
                  "overridable callables) lifted with allP; bridge over the dispatch control flow of baseclass.py; "
                  "exhaustive calls of every registered and unregistered callable on /repo",
        text="Theorems (Props/P_C08.v), over the registries and the universe of overridable numpy callables of this tree: "
             "every registered function/ufunc is forwarded to numpoly's function of the same name; ufunc.reduce/accumulate "
             "reach the function registered for the mapped numpy function; every unregistered function, every other ufunc "
             "method and every unmapped reduce/accumulate yields FeatureNotSupported, never KeyError or a value.",
        note="Trusted: Coq kernel+VM; translator dispatch_tr.py (registries by introspection of the imported /repo, control "
             "flow of __array_ufunc__/__array_function__ by ast, partly textual); numpy.testing.overrides as the universe. "
             "That numpy consults the protocol at all, and that equal targets give equal results, is observed on every run: "
             "all registered callables through numpy/numpoly/method spellings, all ~240 unregistered functions and ~100 "
             "ufuncs and all ufunc methods are actually called with a polynomial (inconclusive templates are listed in the evidence)."),
}


def main():
    checks = []
    for pid, c in sorted(CHECKS.items()):
        checks.append({
            "property_id": pid,
            "quick_cmd": f"./check {pid} --tier quick",
            "thorough_cmd": f"./check {pid} --tier thorough",
            "evidence_file": f"/verif/evidence/{pid}.json",
            "replay_cmd_template": f"./check {pid} --replay {{path}}",
            "engine": "coq-numpoly",
            "technique": c["technique"],
            "level_claimed": {"category": "proof", "text": c["text"], "design_ref": f"DESIGN.md section 6 ({pid})"},
            "level_note": c["note"],
        })
    props = [json.loads(l)["id"] for l in open(os.path.join(VERIF, "properties.jsonl"))]
    na = [{"property_id": p, "reason": "check not built yet (work in progress; planned, see DESIGN.md section 6)"}
          for p in props if p not in CHECKS]
    man = {
        "version": 1,
        "setup_cmd": "cd /verif && ./check setup",
        "hooks": {
            "guard": "NUMPOLY_VERIF",
            "enable": "harness-side only: /verif/check exports NUMPOLY_VERIF=1 and wraps numpoly.ndpoly.__new__ / "
                      "get_division_candidate from the harness; no hook code lives in /repo",
            "baseline_off_cmd": "cd /repo && env -u NUMPOLY_VERIF /venv/bin/python -m pytest -ra -q -p no:cacheprovider --timeout=900 --continue-on-collection-errors",
            "source_commits": [],
            "add_only": True,
        },
        "engines": [{
            "name": "coq-numpoly", "path": "/verif/coq",
            "serves_properties": sorted(CHECKS),
            "kind_free_text": "Coq 8.16.1 development (Model/ executable Gallina, Proofs/ ssreflect+SsrMultinomials, "
                              "Props/ property theorems with Print Assumptions) + Python harness (/verif/harness) that runs "
                              "the model by vm_compute against /repo and regenerates Gen/*.v from /repo's sources",
        }],
        "checks": checks,
        "not_applicable": na,
        "notes": "All checks: ./check <id> --tier quick|thorough ; VERIF_SEED seeds every random choice.",
    }
    with open(os.path.join(VERIF, "MANIFEST.json"), "w") as fh:
        json.dump(man, fh, indent=1)


if __name__ == "__main__":
    main()
