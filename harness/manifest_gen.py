"""Regenerates /verif/MANIFEST.json from the table below (run by hand after adding a check)."""
import json
import os

VERIF = os.path.dirname(os.path.dirname(os.path.abspath(__file__)))

CHECKS = {
    "C01": dict(
        technique="Coq proof: refinement of the executable storage model to SsrMultinomials {mpoly R[n]} "
                  "(induction over term lists and expression trees) + vm_compute correspondence with /repo",
        text="Theorems (Props/P_C01.v, closed under the global context): +, -, unary -, *, ** and every expression "
             "tree over them return, in numpy's broadcast shape, exactly the element-wise ring value in {mpoly R[n]}; "
             "commutativity, associativity, distributivity, x^(j+k)=x^j*x^k as corollaries. The model is tied to /repo "
             "by running it (vm_compute, coefficients in Z) on the same random operand pairs / trees as the implementation.",
        note="Trusted: Coq kernel+VM, MathComp/SsrMultinomials, harness (generators, observation, literal encoding). "
             "Modelled not verified: numpy broadcasting/unique/tile, the Cython multiply kernel (as set-or-accumulate by key). "
             "Not covered: float rounding, int64 overflow, out=/where= arguments, array-valued exponents of ** (see DESIGN)."),
}


def main():
    checks = []
    for pid, c in sorted(CHECKS.items()):
        checks.append({
            "property_id": pid,
            "quick_cmd": f"./check {pid} --tier quick",
            "thorough_cmd": f"./check {pid} --tier thorough",
            "evidence_file": f"/verif/evidence/{pid}.json",
            "replay_cmd_template": f"./check {pid} --replay {{path}}",
            "engine": "coq-numpoly",
            "technique": c["technique"],
            "level_claimed": {"category": "proof", "text": c["text"], "design_ref": f"DESIGN.md section 6 ({pid})"},
            "level_note": c["note"],
        })
    props = [json.loads(l)["id"] for l in open(os.path.join(VERIF, "properties.jsonl"))]
    na = [{"property_id": p, "reason": "check not built yet (work in progress; planned, see DESIGN.md section 6)"}
          for p in props if p not in CHECKS]
    man = {
        "version": 1,
        "setup_cmd": "cd /verif/coq && coq_makefile -f _CoqProject -o Makefile && timeout 3000 make -j16",
        "hooks": {
            "guard": "NUMPOLY_VERIF",
            "enable": "harness-side only: /verif/check exports NUMPOLY_VERIF=1 and wraps numpoly.ndpoly.__new__ / "
                      "get_division_candidate from the harness; no hook code lives in /repo",
            "baseline_off_cmd": "cd /repo && env -u NUMPOLY_VERIF /venv/bin/python -m pytest -ra -q -p no:cacheprovider --timeout=900 --continue-on-collection-errors",
            "source_commits": [],
            "add_only": True,
        },
        "engines": [{
            "name": "coq-numpoly", "path": "/verif/coq",
            "serves_properties": sorted(CHECKS),
            "kind_free_text": "Coq 8.16.1 development (Model/ executable Gallina, Proofs/ ssreflect+SsrMultinomials, "
                              "Props/ property theorems with Print Assumptions) + Python harness (/verif/harness) that runs "
                              "the model by vm_compute against /repo and regenerates Gen/*.v from /repo's sources",
        }],
        "checks": checks,
        "not_applicable": na,
        "notes": "All checks: ./check <id> --tier quick|thorough ; VERIF_SEED seeds every random choice.",
    }
    with open(os.path.join(VERIF, "MANIFEST.json"), "w") as fh:
        json.dump(man, fh, indent=1)


if __name__ == "__main__":
    main()
