"""Generators of polynomial arrays / operands in the C01 input space.

Every random choice comes from the random.Random instance passed in.
"""
from __future__ import annotations

import numpy
import numpoly

NAME_POOL = [0, 1, 2, 3, 10]


def rand_shape(rng, maxdim=3, maxlen=3):
    nd = rng.choice([0, 0, 1, 1, 1, 2, 2, 3][: 2 + 2 * maxdim]) if maxdim < 3 else rng.choice([0, 1, 1, 2, 2, 3])
    nd = min(nd, maxdim)
    return tuple(rng.choice([1, 2, 2, 3][:maxlen + 1]) for _ in range(nd))


def broadcast_pair(rng, maxdim=3):
    """Two shapes that broadcast (differing ndim, size-1 stretching)."""
    full = rand_shape(rng, maxdim)
    out = []
    for _ in range(2):
        k = rng.randint(0, len(full))
        s = list(full[len(full) - k:])
        s = [1 if rng.random() < 0.3 else d for d in s]
        out.append(tuple(s))
    return out[0], out[1]


def rand_names(rng, kmax=4):
    k = rng.randint(1, kmax)
    return tuple(sorted(rng.sample(NAME_POOL, k)))


def names_pair(rng):
    """Name sets in one of the relations: equal, overlapping, disjoint, q10-vs-q2."""
    rel = rng.choice(["equal", "overlap", "disjoint", "q10q2", "any"])
    if rel == "equal":
        a = rand_names(rng, 3)
        return a, a
    if rel == "disjoint":
        pool = NAME_POOL[:]
        rng.shuffle(pool)
        k = rng.randint(1, 2)
        return tuple(sorted(pool[:k])), tuple(sorted(pool[k:k + rng.randint(1, 2)]))
    if rel == "q10q2":
        return (10,), rng.choice([(2,), (0, 2), (2, 3)])
    if rel == "overlap":
        a = rand_names(rng, 3)
        b = tuple(sorted(set(rng.sample(list(a), 1) + rng.sample(NAME_POOL, rng.randint(1, 2)))))
        return a, b
    return rand_names(rng), rand_names(rng)


def rand_coeff(rng, kind):
    if kind == "small":
        return rng.choice([-2, -1, 0, 0, 1, 1, 2, 3])
    return rng.randint(-9, 9)


def rand_poly(rng, shape=None, names=None, nterms=None, maxexp=3, dtype=None, raw=None):
    """A polynomial array built from attributes.

    raw=True keeps redundant zero columns / unused names in the storage (retain flags on);
    raw=False lets numpoly clean it.  The coefficient columns include zeros and the term
    list may contain the constant term."""
    if shape is None:
        shape = rand_shape(rng)
    if names is None:
        names = rand_names(rng)
    if nterms is None:
        nterms = rng.choice([0, 1, 1, 2, 2, 3, 4, 6])
    if dtype is None:
        dtype = rng.choice([numpy.int64, numpy.int64, numpy.float64])
    if raw is None:
        raw = rng.random() < 0.3
    D = len(names)
    rows = set()
    tries = 0
    while len(rows) < max(1, nterms) and tries < 50:
        tries += 1
        if rng.random() < 0.2:
            rows.add((0,) * D)
        else:
            rows.add(tuple(rng.choice([0, 0, 1, 1, 2, maxexp]) for _ in range(D)))
    rows = sorted(rows)
    rng.shuffle(rows)
    size = int(numpy.prod(shape)) if shape else 1
    cols = []
    for _ in rows:
        if nterms == 0 or rng.random() < 0.1:
            c = numpy.zeros(shape, dtype=dtype)
        else:
            c = numpy.array([rand_coeff(rng, "small") for _ in range(size)], dtype=dtype).reshape(shape)
        cols.append(c)
    return numpoly.polynomial_from_attributes(
        exponents=rows, coefficients=cols, names=tuple(f"q{n}" for n in names),
        retain_coefficients=raw, retain_names=raw or None)


def rand_numeric(rng, shape):
    size = int(numpy.prod(shape)) if shape else 1
    data = [rng.randint(-4, 4) for _ in range(size)]
    kind = rng.choice(["ndarray", "ndarray_f", "list", "scalar"])
    if kind == "scalar" or not shape:
        return rng.choice([rng.randint(-4, 4), float(rng.randint(-4, 4)), numpy.int64(rng.randint(-4, 4))])
    arr = numpy.array(data, dtype=numpy.int64).reshape(shape)
    if kind == "ndarray":
        return arr
    if kind == "ndarray_f":
        return arr.astype(float)
    return arr.tolist()


def rand_operand_pair(rng):
    """Operand pair for a binary operator: shapes broadcast, names related, either side numeric."""
    s1, s2 = broadcast_pair(rng)
    n1, n2 = names_pair(rng)
    # one dtype for both in most cases: int/float mixes are C12's subject, values are exact anyway
    a = rand_poly(rng, s1, n1)
    b = rand_poly(rng, s2, n2)
    r = rng.random()
    if r < 0.12:
        a = rand_numeric(rng, s1)
    elif r < 0.24:
        b = rand_numeric(rng, s2)
    return a, b


def describe(x):
    if isinstance(x, numpoly.ndpoly):
        return f"poly{tuple(x.shape)}:{x.dtype}:{str(x)}"
    return f"{type(x).__name__}:{x!r}"
